package main

import (
	"fmt"
	"os"
	"path/filepath"
	"strings"

	"verif/internal/gen"
	"verif/internal/h"
)

// c10shared: one task used by a chain of 2..4 stages, every stage defining its own subset of the names at stage level;
// the lower three levels (configuration, --set, task) define every non-empty subset as in c10vars. What a stage's run
// of the task renders is decided by the four levels as *that stage* has them: a name some other stage defines at stage
// level, and this one does not, resolves to the task's (or --set's, or the configuration's) value.
func c10shared(c *h.Ctx, idx int, r *h.Rand) {
	dir := caseDir(c, fmt.Sprintf("c10s.%d", idx))
	defer os.RemoveAll(dir)
	real, _ := filepath.EvalSymlinks(dir)
	trace := real + "/trace"
	nst := 2 + r.Intn(3)
	lower := make([]map[string]string, 3)
	for i := range lower {
		lower[i] = map[string]string{}
	}
	stageDefs := make([]map[string]string, nst)
	for i := range stageDefs {
		stageDefs[i] = map[string]string{}
	}
	lowWant, lowLevel := map[string]string{}, map[string]string{}
	var names []string
	for mask := 1; mask < 8; mask++ {
		for rep := 0; rep < 2; rep++ {
			name := fmt.Sprintf("VS_%d_%d", mask, rep)
			names = append(names, name)
			for lv := 0; lv < 3; lv++ {
				if mask&(1<<uint(lv)) != 0 {
					val := fmt.Sprintf("%s%d", varLevels[lv], r.Intn(1000))
					lower[lv][name] = val
					lowWant[name], lowLevel[name] = val, varLevels[lv]
				}
			}
			// which stages define it: never all of them alike, so that the stages differ
			pat := 1 + r.Intn(1<<uint(nst)-2)
			for s := 0; s < nst; s++ {
				if pat&(1<<uint(s)) != 0 {
					stageDefs[s][name] = fmt.Sprintf("stage%d-%d", s, r.Intn(1000))
				}
			}
		}
	}
	format, argv := "VARS", ""
	for _, k := range names {
		format += " " + k + "=[%s]"
		argv += fmt.Sprintf(" '{{.%s}}'", k)
	}
	cmd := fmt.Sprintf("printf '%s\\n'%s >> '%s'", format, argv, trace)
	var stages []interface{}
	for s := 0; s < nst; s++ {
		st := gen.OM{{K: "name", V: fmt.Sprint("s", s)}, {K: "task", V: "t"}, {K: "variables", V: stageDefs[s]}}
		if s > 0 {
			st.Set("depends_on", []interface{}{fmt.Sprint("s", s-1)})
		}
		stages = append(stages, st)
	}
	cfg := gen.OM{{K: "variables", V: lower[0]}, {K: "tasks", V: gen.OM{{K: "t", V: gen.OM{{K: "command", V: []interface{}{cmd}}, {K: "variables", V: lower[2]}}}}}, {K: "pipelines", V: gen.OM{{K: "p", V: stages}}}}
	h.WriteFile(real+"/tasks.yaml", gen.YAML(cfg))
	var args []string
	for _, k := range sortedKeys(lower[1]) {
		args = append(args, "--set", k+"="+lower[1][k])
	}
	if idx%2 == 1 {
		args = append(args, "-o", "raw", "run", "pipeline", "p")
	} else {
		args = append(args, "-o", "raw", "p")
	}
	res := tc{Dir: real}.run(c, args...)
	c.Eval(1)
	got := lines(h.ReadFile(trace))
	cas := map[string]interface{}{"yaml": gen.YAML(cfg), "argv": args, "exit": res.Exit, "trace": got, "stderr": tail(stripANSI(string(res.Stderr)), 500)}
	if crashed, how := res.Crashed(); crashed {
		c.Violate("cli-crash/"+h.TopFrame(string(res.Stderr)), "taskctl died: "+how, cas)
		return
	}
	if res.Exit != 0 || len(got) != nst {
		c.Violate("shared-task-vars-run-failed", fmt.Sprintf("exit %d, %d of %d stages wrote: %s", res.Exit, len(got), nst, tail(stripANSI(string(res.Stderr)), 300)), cas)
		return
	}
	for s := 0; s < nst; s++ {
		kv := parseKV(got[s])
		for _, n := range names {
			c.Count("names_checked", 1)
			want, wl := lowWant[n], lowLevel[n]
			if v, ok := stageDefs[s][n]; ok {
				want, wl = v, "stage"
			}
			if kv[n] != want {
				from := "?"
				for l := 0; l < 3; l++ {
					if v, ok := lower[l][n]; ok && v == kv[n] {
						from = varLevels[l]
					}
				}
				for o := range stageDefs {
					if v, ok := stageDefs[o][n]; ok && v == kv[n] {
						from = "stage"
						if o != s {
							from = "another-stage"
						}
					}
				}
				c.Violate(fmt.Sprintf("var-precedence/shared-task/%s-beats-%s", from, wl), fmt.Sprintf("stage s%d of %d (all run task t): variable %s rendered %q, the highest level defining it for this stage (%s) has %q", s, nst, n, kv[n], wl, want), cas)
			}
			c.Nontrivial(fmt.Sprint("shared", n, s, wl, strings.HasPrefix(want, "stage")))
		}
	}
}
