package main

import (
	"time"

	"verif/internal/h"
)

func c08(c *h.Ctx) {
	c.Rule = "in-process: 2..6 stages sharing one task object with pairwise distinct env/variables/dir overrides in parallel / chained / mixed arrangements under the real scheduler with a recording Runner (seeded task durations), the pipeline run twice, a second pipeline on the same task, then a direct run; whole workload again under the race detector; CLI: same arrangements as YAML, commands print every key of the universe and pwd. non-trivial = every distinct generated arrangement"
	c.Assumptions = []string{"a stage execution is identified by a marker key in its own env override", "built-in variables added by the loader (.Stage.Name, Task.Name, Context.Name) are only checked for not leaking to other stages"}
	anchors := []string{"pkg/scheduler/scheduler.go", "internal/config/pipeline.go", "pkg/variables/variables.go"}
	runWorkers(c, workerOpts{Mode: "stage", Shards: 8, Timeout: 15 * time.Minute})
	runWorkers(c, workerOpts{Mode: "stage", Race: true, Shards: 8, Timeout: 15 * time.Minute, Anchors: anchors})
	c08cli(c)
	c08nested(c)
}

func init() { checks["C08"] = checkDef{"exploration", c08} }
