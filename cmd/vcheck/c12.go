package main

import (
	"bufio"
	"bytes"
	"encoding/json"
	"fmt"
	"os"
	"path/filepath"
	"strings"
	"sync/atomic"
	"time"

	"verif/internal/h"
)

type cancelSpec struct {
	Idx     int    `json:"idx"`
	K       int    `json:"in_flight"`
	W       int    `json:"waiting"`
	Mode    string `json:"mode"`
	Point   string `json:"point"`
	Cancels string `json:"cancels"`
	Via     string `json:"via"`
	Cmd     string `json:"cmd"`
	Jitter  int    `json:"jitter_us"`
	Allow   bool   `json:"allow_failure"`
	// interactive tasks: the runner's stdin (a pipe whose writer stays open and silent) is handed to the commands
	Interactive bool `json:"interactive,omitempty"`
	// Nested: the pipeline is itself included by a stage of an outer pipeline (a condition error or a Cancel then
	// arrives inside a nested scheduling loop)
	Nested bool `json:"nested,omitempty"`
	// Shared (with Nested): two stages of the outer pipeline include it, so two scheduling loops work on it
	Shared bool `json:"included_twice,omitempty"`
	// Prelude: a run that fails before it really begins (unknown context / failing context up / failing context
	// before-hook) on the same runner, before the scenario
	Prelude string `json:"prelude,omitempty"`
	// TaskTimeout: the tasks carry a (long) timeout of their own
	TaskTimeout bool `json:"task_timeout,omitempty"`
}

// runCancelCase runs one injection in its own process. Returns "", "suspect" or "crash".
func runCancelCase(c *h.Ctx, sp cancelSpec, race bool, count bool) string {
	bin := filepath.Join(c.BinDir, "vworker")
	work := filepath.Join(c.Work, fmt.Sprintf("c12.%d.%v.%d", sp.Idx, race, time.Now().UnixNano()%1000000))
	os.MkdirAll(work, 0o755)
	defer os.RemoveAll(work)
	env := append(h.BaseEnv(work), "TMPDIR="+work)
	if race {
		bin = filepath.Join(c.BinDir, "vworker-race")
		env = append(env, "GORACE=halt_on_error=0 exitcode=0 log_path="+filepath.Join(work, "race.log"))
	}
	b, _ := json.Marshal(sp)
	res := h.Proc{Argv: []string{bin, "cancel1", "prop=" + c.ID, "work=" + work, "spec=" + string(b)}, Dir: work, Env: env, Timeout: 120 * time.Second}.Run()
	if count {
		c.Eval(1)
	}
	cas := map[string]interface{}{"spec": sp}
	verdict := ""
	sc := bufio.NewScanner(bytes.NewReader(res.Stdout))
	sc.Buffer(make([]byte, 1<<20), 32<<20)
	ended := false
	for sc.Scan() {
		var l wline
		if json.Unmarshal(sc.Bytes(), &l) != nil {
			continue
		}
		switch l.K {
		case "viol":
			var cs interface{}
			json.Unmarshal(l.Case, &cs)
			if l.Prop == c.ID {
				c.Violate(l.Sig, l.What, cs)
			}
		case "suspect":
			verdict = "suspect"
		case "inconclusive":
			if count {
				c.Inconclusive(l.What)
			}
		case "sample":
			var v interface{}
			json.Unmarshal(l.V, &v)
			c.Sample(v)
		case "end":
			ended = true
			if count {
				for k, v := range l.Counters {
					c.Count("cancel."+k, v)
				}
				for _, k := range l.Nontrivial[c.ID] {
					c.Nontrivial("h:" + k)
				}
			}
		}
	}
	se := string(res.Stderr)
	switch {
	case res.TimedOut:
		if h.DeadlockDump(res.Dump) {
			c.Violate(fmt.Sprintf("deadlock/process/%s/in-flight=%d", sp.Point, sp.K), "the cancellation case did not finish; every taskctl goroutine is parked:\n"+tail(res.Dump, 5000), cas)
		} else {
			verdict = "suspect"
		}
	default:
		if crashed, how := res.Crashed(); crashed || !ended {
			msg := how
			for _, ln := range strings.Split(se, "\n") {
				if strings.HasPrefix(ln, "panic: ") || strings.HasPrefix(ln, "fatal error: ") {
					msg = ln
					break
				}
			}
			cas["stderr"] = tail(se, 5000)
			inflight := "in-flight>=2"
			if sp.K < 2 {
				inflight = fmt.Sprintf("in-flight=%d", sp.K)
			}
			c.Violate("crash/"+msg+"/"+h.TopFrame(se)+"/"+inflight, fmt.Sprintf("process died during cancellation (%s, %d in flight, %s): %s", sp.Point, sp.K, sp.Cancels, msg), cas)
			verdict = "crash"
		}
	}
	if race {
		foldRaceLogs(c, work, []string{"pkg/runner/runner.go", "pkg/scheduler/scheduler.go", "pkg/executor/executor.go"})
	}
	return verdict
}

var confirmedSlow int32

func c12(c *h.Ctx) {
	c.Level = "fault_enumeration"
	c.Rule = "fault enumeration, one child process per injection: Cancel injected {before any run, parked at the before-hook, during command (sleep / shell busy loop / child ignoring SIGINT), exactly between two commands, before the output is stored, after the last task finished, from a stage-condition error} x 0..4 tasks in flight x 0..3 stages waiting x {TaskRunner.Cancel, Scheduler.Cancel} x {once, twice in a row, three concurrent callers}, interactive tasks reading an open, silent stdin pipe, the pipeline itself included by an outer pipeline, runs parked at verif hook points so that the injection lands exactly there; free-running variant with seeded cancel times under the race detector. Monitors: parent observes crash / dead-lock dump; trace markers CANCEL_CALL / CANCEL_RET vs S:/E: tokens; spawned pids gone; interrupted or unstarted task must not report success; a Run after Cancel must fail. non-trivial = every distinct injection spec"
	c.Assumptions = []string{"tasks whose last command finished before Cancel was called may report success", "bounded progress: Cancel/Run/Schedule must return within 2 s kill grace + 10 s; a firing watchdog is a violation at once only if the goroutine dump shows every taskctl goroutine parked, otherwise the case is repeated three times", "no execution-context hooks in these workloads (they run under context.Background by design)"}
	var specs []cancelSpec
	rnd := c.Rand("specs")
	add := func(sp cancelSpec) { sp.Idx = len(specs); specs = append(specs, sp) }
	points := []string{"before-run", "before-hook", "during-command", "between-commands", "store", "after-finished", "after-hook"}
	for _, mode := range []string{"direct", "pipeline"} {
		for _, pt := range points {
			for k := 0; k <= 4; k++ {
				if k == 0 && pt != "before-run" && pt != "after-finished" && pt != "during-command" {
					continue
				}
				ws := []int{0}
				if mode == "pipeline" {
					ws = []int{0, 1, 3}
					if !c.Quick() {
						ws = []int{0, 1, 2, 3}
					}
				}
				for _, w := range ws {
					for _, cn := range []string{"once", "twice", "concurrent"} {
						vias := []string{"runner"}
						if mode == "pipeline" {
							vias = []string{"scheduler", "runner"}
						}
						for _, via := range vias {
							cmds := []string{"sleep"}
							if pt == "during-command" {
								cmds = []string{"sleep", "busy", "ignore-int"}
							}
							for _, cmd := range cmds {
								if c.Quick() {
									// keep every (point, k) and every special dimension once; thin the rest
									base := cn == "once" && via == vias[0] && cmd == "sleep" && w == ws[0]
									if !base && !rnd.Chance(22) {
										continue
									}
								}
								// tasks that tolerate failing commands are interrupted like any other
								add(cancelSpec{K: k, W: w, Mode: mode, Point: pt, Cancels: cn, Via: via, Cmd: cmd, Jitter: rnd.Intn(3000), Allow: len(specs)%3 == 1})
							}
						}
					}
				}
			}
		}
	}
	for _, mode := range []string{"direct", "pipeline"} {
		for _, k := range []int{1, 3} {
			for _, cmd := range []string{"sleep", "ignore-int"} {
				via := "runner"
				if mode == "pipeline" {
					via = "scheduler"
				}
				add(cancelSpec{K: k, W: len(specs) % 2, Mode: mode, Point: "during-command", Cancels: "once", Via: via, Cmd: cmd, Interactive: true})
			}
		}
	}
	for pi, pre := range []string{"unknown-context", "up-fails", "before-fails"} {
		add(cancelSpec{K: 1 + pi%2, W: 0, Mode: "direct", Point: "during-command", Cancels: "once", Via: "runner", Cmd: "sleep", Prelude: pre})
		add(cancelSpec{K: pi % 2, W: 1, Mode: "pipeline", Point: []string{"after-finished", "during-command", "cond-error"}[pi], Cancels: "once", Via: []string{"scheduler", "scheduler", "cond"}[pi], Cmd: "sleep", Prelude: pre})
	}
	// several callers at once while a command keeps reporting: none of them is back before the command is gone
	add(cancelSpec{K: 1, W: 1, Mode: "pipeline", Point: "during-command", Cancels: "concurrent", Via: "scheduler", Cmd: "ticker"})
	add(cancelSpec{K: 2, W: 0, Mode: "direct", Point: "during-command", Cancels: "concurrent", Via: "runner", Cmd: "ticker"})
	// tasks whose timeout is present and zero, cancelled 300 ms into the run
	add(cancelSpec{K: 1, W: 0, Mode: "direct", Point: "free", Cancels: "once", Via: "runner", Cmd: "ticker", TaskTimeout: true, Jitter: 300000})
	add(cancelSpec{K: 2, W: 1, Mode: "pipeline", Point: "free", Cancels: "once", Via: "scheduler", Cmd: "ticker", TaskTimeout: true, Jitter: 300000})
	// the task's own condition is a running command too
	for _, mode := range []string{"direct", "pipeline"} {
		for _, k := range []int{1, 2} {
			via := "runner"
			if mode == "pipeline" {
				via = "scheduler"
			}
			add(cancelSpec{K: k, W: k - 1, Mode: mode, Point: "during-condition", Cancels: "once", Via: via, Cmd: "sleep"})
			// a condition that handles the interrupt and leaves with a status of its own has still answered nothing
			add(cancelSpec{K: k, W: k - 1, Mode: mode, Point: "during-condition", Cancels: "once", Via: via, Cmd: "trap-exit", Jitter: 400000})
			if k == 1 {
				add(cancelSpec{K: k, W: 0, Mode: mode, Point: "during-command", Cancels: "once", Via: via, Cmd: "trap-exit", Jitter: 400000})
			}
		}
	}
	// commands that ignore the interrupt and keep writing: nothing of them after Cancel has returned; with and
	// without a task timeout of their own
	for _, mode := range []string{"direct", "pipeline"} {
		for _, tt := range []bool{false, true} {
			via := "runner"
			if mode == "pipeline" {
				via = "scheduler"
			}
			add(cancelSpec{K: 2, W: len(specs) % 2, Mode: mode, Point: "during-command", Cancels: "once", Via: via, Cmd: "ticker", TaskTimeout: tt})
		}
	}
	for k := 0; k <= 2; k++ {
		for _, w := range []int{1, 2} {
			add(cancelSpec{K: k, W: w, Mode: "pipeline", Point: "cond-error", Cancels: "once", Via: "cond", Cmd: "sleep", Nested: true})
			add(cancelSpec{K: k, W: w, Mode: "pipeline", Point: "cond-error", Cancels: "once", Via: "cond", Cmd: []string{"sleep", "ignore-int"}[w-1], Nested: true, Shared: true})
			if k > 0 {
				add(cancelSpec{K: k, W: w, Mode: "pipeline", Point: "during-command", Cancels: []string{"once", "concurrent"}[w-1], Via: "scheduler", Cmd: "sleep", Nested: true})
			}
		}
	}
	for k := 0; k <= 4; k++ {
		for _, w := range []int{1, 2, 3} {
			add(cancelSpec{K: k, W: w, Mode: "pipeline", Point: "cond-error", Cancels: "once", Via: "cond", Cmd: "sleep"})
		}
	}
	c.Extra("injection_specs", len(specs))
	stop := false
	crashes := 0
	h.Par(len(specs), 16, func(i int) {
		if stop {
			return
		}
		v := runCancelCase(c, specs[i], false, true)
		if v == "crash" {
			crashes++
		}
		if v == "suspect" && atomic.LoadInt32(&confirmedSlow) >= 3 {
			c.Inconclusive(fmt.Sprintf("case %d exceeded its time bound; not re-confirmed (three such cases are already confirmed and reported)", i))
		} else if v == "suspect" {
			again := 0
			for k := 0; k < 3; k++ {
				if runCancelCase(c, specs[i], false, false) == "suspect" {
					again++
				}
			}
			if again == 3 {
				atomic.AddInt32(&confirmedSlow, 1)
				c.Violate(fmt.Sprintf("not-returned-in-bound/%s/in-flight=%d", specs[i].Point, specs[i].K), "cancellation case exceeded its time bound in four consecutive runs", specs[i])
			} else {
				c.Inconclusive(fmt.Sprintf("case %d exceeded its time bound once, not reproduced", i))
			}
		}
	})
	// Run and Cancel released together, many rounds (check-then-act windows of a few instructions)
	runWorkers(c, workerOpts{Mode: "cancelrace", Shards: 8, Timeout: 10 * time.Minute})
	// free-running variant under the race detector: seeded cancel times, no hooks
	nfree := c.N(40, 600)
	h.Par(nfree, 8, func(i int) {
		r := h.NewRand(c.Seed*31+int64(i), "c12free")
		mode := []string{"direct", "pipeline"}[r.Intn(2)]
		sp := cancelSpec{Idx: 100000 + i, K: r.Range(1, 4), W: r.Intn(3), Mode: mode, Allow: r.Chance(30), Point: "free", Cancels: []string{"once", "twice", "concurrent"}[r.Intn(3)], Via: []string{"runner", "scheduler"}[r.Intn(2)], Cmd: []string{"sleep", "busy"}[r.Intn(2)], Jitter: r.Intn(30000)}
		if mode == "direct" {
			sp.W, sp.Via = 0, "runner"
		}
		runCancelCase(c, sp, true, true)
	})
}

func init() { checks["C12"] = checkDef{"fault_enumeration", c12} }
