package main

import (
	"fmt"
	"os"
	"path/filepath"
	"regexp"
	"sort"
	"strings"

	"verif/internal/gen"
	"verif/internal/h"
)

var kvRe = regexp.MustCompile(`(\S+?)=\[([^\]]*)\]`)

func parseKV(line string) map[string]string {
	m := map[string]string{}
	for _, x := range kvRe.FindAllStringSubmatch(line, -1) {
		m[x[1]] = x[2]
	}
	return m
}

func absentVal(v string) bool { return v == "" || v == "<no value>" || v == "<nil>" }

func c08cli(c *h.Ctx) {
	n := c.N(60, 1200)
	h.Par(n, 16, func(i int) {
		r := h.NewRand(c.Seed*1000003+int64(i), "c08cli")
		dir := caseDir(c, fmt.Sprintf("c08.%d", i))
		defer os.RemoveAll(dir)
		real, _ := filepath.EvalSymlinks(dir)
		trace := real + "/trace"
		taskEnv := map[string]string{"TK": "task-tk", "COMMON": "task-common"}
		taskVars := map[string]string{"TVAR": "task-tvar", "CVAR": "task-cvar"}
		taskDir := ""
		if r.Chance(50) {
			taskDir = real + "/taskdir"
			os.MkdirAll(taskDir, 0o755)
		}
		// the task's dir may be a template over a variable that stages override: every execution must land in the
		// directory its OWN variables select
		tplDir := r.Chance(35)
		if tplDir {
			taskDir = real + "/dir-of-{{ .CVAR }}"
			os.MkdirAll(real+"/dir-of-task-cvar", 0o755)
		}
		// one variation whose value is template text over the same variable: whether taskctl renders it or not, what
		// an execution sees must be derived from its own variables only
		tplVariation := r.Chance(35)
		// one of the task's own variables is a template over a variable that stages override: what it renders to is
		// part of every execution's own view (a value rendered for one stage must not be served to the next)
		tplVar := r.Chance(40)
		if tplVar {
			taskVars["DERIVED"] = "derived-{{ .CVAR }}"
		}
		arr := []string{"parallel", "chain", "mixed"}[r.Intn(3)]
		type st struct {
			id, dir   string
			env, vars map[string]string
			deps      []string
			cond      string
		}
		envKeys := map[string]bool{"STAGE_ID": true, "TK": true, "COMMON": true, "INHERITED": true}
		varKeys := map[string]bool{"TVAR": true, "CVAR": true}
		if tplVar {
			varKeys["DERIVED"] = true
		}
		mk := func(pfx string, k int) []st {
			var out []st
			for j := 0; j < k; j++ {
				id := fmt.Sprintf("%s%d", pfx, j)
				s := st{id: id, env: map[string]string{"STAGE_ID": id}, vars: map[string]string{}}
				if r.Chance(80) {
					s.env["E_"+id] = "env-of-" + id
					envKeys["E_"+id] = true
				}
				if r.Chance(40) {
					s.env["COMMON"] = "common-of-" + id
				}
				if r.Chance(35) {
					s.env["INHERITED"] = "inherited-overridden-by-" + id // a name taskctl itself inherited from its parent
					if r.Chance(30) {
						s.env["INHERITED"] = "" // overridden with the empty value: defined and empty
					}
				}
				if r.Chance(30) {
					// a stage-level condition that holds and takes a moment (evaluated on every pass while the stage waits)
					s.cond = real + "/cond-" + id + ".sh" // (executed directly, not through a shell)
					h.WriteExec(s.cond, []byte(fmt.Sprintf("#!/bin/sh\nsleep 0.0%d\nexit 0\n", 2+r.Intn(6))), 0o755)
				}
				if r.Chance(70) {
					s.vars["V_"+id] = "var-of-" + id
					varKeys["V_"+id] = true
				}
				if r.Chance(30) || ((tplDir || tplVariation || tplVar) && r.Chance(50)) {
					s.vars["CVAR"] = "cvar-of-" + id
					os.MkdirAll(real+"/dir-of-cvar-of-"+id, 0o755)
				}
				if r.Chance(40) {
					s.dir = real + "/stagedir-" + id
					os.MkdirAll(s.dir, 0o755)
				}
				switch arr {
				case "chain":
					if j > 0 {
						s.deps = []string{fmt.Sprintf("%s%d", pfx, j-1)}
					}
				case "mixed":
					for q := 0; q < j; q++ {
						if r.Chance(35) {
							s.deps = append(s.deps, fmt.Sprintf("%s%d", pfx, q))
						}
					}
				}
				out = append(out, s)
			}
			return out
		}
		p1, p2 := mk("a", r.Range(2, 6)), mk("b", r.Range(1, 3))
		var ek, vk []string
		for k := range envKeys {
			ek = append(ek, k)
		}
		for k := range varKeys {
			vk = append(vk, k)
		}
		sort.Strings(ek)
		sort.Strings(vk)
		format, argv := "RUN", ""
		for _, k := range ek {
			format += " " + k + "=[%s]"
			argv += fmt.Sprintf(" \"$%s\"", k)
		}
		for _, k := range vk {
			format += fmt.Sprintf(" var.%s=[{{index . \"%s\"}}]", k, k)
		}
		format += " stagename=[{{index . \".Stage.Name\"}}] pwd=[%s] pwdvar=[%s]"
		argv += " \"$(pwd)\" \"$PWD\""
		if tplVariation {
			format += " who=[%s]"
			argv += " \"$WHO\""
		}
		line := func(where string) string {
			return fmt.Sprintf("printf '%s where=[%s]\\n'%s >> '%s'", format, where, argv, trace)
		}
		cmd := line("cmd")
		// one stage (sometimes) makes its command fail after it has printed: what it was given must not reach what runs next
		failing := ""
		if r.Chance(35) {
			failing = p1[r.Intn(len(p1))].id
			cmd += "; if [ \"$STAGE_ID\" = " + failing + " ]; then exit 3; fi"
		}
		tdef := gen.OM{{K: "command", V: []interface{}{cmd}}, {K: "env", V: taskEnv}, {K: "variables", V: taskVars}}
		if r.Chance(60) {
			// hooks of the shared task see the same overrides; a hook that (re)assigns a variable must not carry it over
			tdef.Set("before", []interface{}{"COMMON=${COMMON:-unset}; " + line("before")})
			tdef.Set("after", []interface{}{line("after")})
		}
		if tplVariation {
			tdef.Set("variations", []interface{}{gen.OM{{K: "WHO", V: "who-{{ .CVAR }}"}}})
		}
		namedCtx := r.Chance(40) // the shared task runs in a named execution context (one object for all runs)
		if namedCtx {
			tdef.Set("context", "cx")
		}
		if taskDir != "" {
			tdef.Set("dir", taskDir)
		}
		stages := func(ss []st) []interface{} {
			var l []interface{}
			for _, s := range ss {
				o := gen.OM{{K: "name", V: s.id}, {K: "task", V: "shared"}, {K: "env", V: s.env}}
				if len(s.vars) > 0 {
					o.Set("variables", s.vars)
				}
				if s.dir != "" {
					if (len(s.id)+len(s.dir))%2 == 0 {
						// the stage's dir given as a template over a built-in variable (same directory)
						o.Set("dir", "{{.Root}}"+strings.TrimPrefix(s.dir, real))
					} else {
						o.Set("dir", s.dir)
					}
				}
				if s.cond != "" {
					o.Set("condition", s.cond)
				}
				if s.id == failing {
					o.Set("allow_failure", true)
				}
				if len(s.deps) > 0 {
					var d []interface{}
					for _, x := range s.deps {
						d = append(d, x)
					}
					o.Set("depends_on", d)
				}
				l = append(l, o)
			}
			return l
		}
		cfg := gen.OM{{K: "tasks", V: gen.OM{{K: "shared", V: tdef}}}, {K: "pipelines", V: gen.OM{{K: "p", V: stages(p1)}, {K: "q", V: stages(p2)}}}}
		if namedCtx {
			cfg = append(gen.OM{{K: "contexts", V: gen.OM{{K: "cx", V: gen.OM{{K: "env", V: gen.OM{{K: "FROMCTX", V: "1"}}}, {K: "before", V: []interface{}{"true"}}}}}}}, cfg...)
		}
		h.WriteFile(dir+"/tasks.yaml", gen.YAML(cfg))
		res := tc{Dir: real, Env: []string{"INHERITED=from-parent"}}.run(c, "-o", "raw", "p", "q", "shared")
		c.Eval(1)
		got := lines(h.ReadFile(trace))
		cas := map[string]interface{}{"yaml": gen.YAML(cfg), "trace": got, "exit": res.Exit, "stderr": tail(stripANSI(string(res.Stderr)), 600)}
		if crashed, how := res.Crashed(); crashed {
			c.Violate("cli-crash/"+h.TopFrame(string(res.Stderr)), "taskctl died: "+how, cas)
			return
		}
		if res.Exit != 0 {
			c.Violate("cli-run-failed", "taskctl p q shared failed: "+tail(stripANSI(string(res.Stderr)), 300), cas)
			return
		}
		byID := map[string]st{}
		for _, s := range append(append([]st{}, p1...), p2...) {
			byID[s.id] = s
		}
		seen := map[string]int{}
		c.Count("cli_lines", int64(len(got)))
		for _, ln := range got {
			kv := parseKV(ln)
			id := kv["STAGE_ID"]
			wantEnv, wantVars, wantDir, wantStage := taskEnv, taskVars, taskDir, ""
			where := "direct run"
			if id != "" {
				s, ok := byID[id]
				if !ok {
					c.Violate("cli-unknown-stage-id", ln, cas)
					continue
				}
				where = "stage " + id
				wantEnv, wantVars, wantStage = h2overlay(taskEnv, s.env), h2overlay(taskVars, s.vars), id
				if s.dir != "" {
					wantDir = s.dir
				}
			}
			if kv["where"] == "cmd" {
				seen[id]++
			}
			if tplVar {
				wantVars = h2overlay(wantVars, map[string]string{"DERIVED": "derived-" + wantVars["CVAR"]})
				c.Count("cli_templated_task_variable_lines", 1)
			}
			where += " (" + kv["where"] + ")"
			if _, ok := wantEnv["INHERITED"]; !ok {
				wantEnv = h2overlay(wantEnv, map[string]string{"INHERITED": "from-parent"})
			}
			if g := kv["pwdvar"]; g != kv["pwd"] {
				c.Violate("cli-dir", fmt.Sprintf("%s: $PWD=%q but pwd prints %q", where, g, kv["pwd"]), cas)
			}
			if wantDir == "" {
				wantDir = real
			}
			for _, k := range ek {
				w, defined := wantEnv[k]
				g := kv[k]
				if defined && g != w {
					sig := "cli-env-wrong-value"
					if g == "" {
						sig = "cli-task-env-lost"
					}
					c.Violate(sig, fmt.Sprintf("%s: $%s=%q, the statement requires %q", where, k, g, w), cas)
				}
				if !defined && g != "" {
					c.Violate("cli-env-leak", fmt.Sprintf("%s sees $%s=%q which was given on another stage only", where, k, g), cas)
				}
			}
			for _, k := range vk {
				w, defined := wantVars[k]
				g := kv["var."+k]
				if k == "DERIVED" && kv["where"] != "cmd" && g == "derived-{{ .CVAR }}" {
					continue // hooks are compiled without the pass that renders variable values: the unrendered text is the task's own
				}
				if defined && g != w {
					sig := "cli-variable-wrong-value"
					if absentVal(g) {
						sig = "cli-task-variables-lost"
					}
					c.Violate(sig, fmt.Sprintf("%s: variable %s=%q, the statement requires %q", where, k, g, w), cas)
				}
				if !defined && !absentVal(g) {
					c.Violate("cli-variable-leak", fmt.Sprintf("%s sees variable %s=%q which was given on another stage only", where, k, g), cas)
				}
			}
			if g := kv["stagename"]; (wantStage == "" && !absentVal(g)) || (wantStage != "" && !absentVal(g) && g != wantStage) {
				c.Violate("cli-stage-name-leak", fmt.Sprintf("%s sees .Stage.Name=%q", where, g), cas)
			}
			if tplDir && wantDir == taskDir {
				wantDir = real + "/dir-of-" + wantVars["CVAR"]
			}
			if tplVariation && kv["where"] == "cmd" { // hooks run outside the variations
				if g := kv["who"]; g != "who-{{ .CVAR }}" && g != "who-"+wantVars["CVAR"] {
					c.Violate("cli-variation-value-of-another-stage", fmt.Sprintf("%s: variation value $WHO=%q; from its own variables it is %q (or the unrendered text)", where, g, "who-"+wantVars["CVAR"]), cas)
				}
				c.Count("cli_templated_variation_lines", 1)
			}
			if g := kv["pwd"]; g != wantDir {
				c.Violate("cli-dir", fmt.Sprintf("%s ran in %q, the statement requires %q", where, g, wantDir), cas)
			}
		}
		for id := range byID {
			if seen[id] != 1 {
				c.Violate("cli-stage-executions-attributed", fmt.Sprintf("stage %s identified %d times (expected once)", id, seen[id]), cas)
			}
		}
		if seen[""] != 1 {
			c.Violate("cli-direct-run-attributed", fmt.Sprintf("%d executions without a stage id (expected exactly the direct run)", seen[""]), cas)
		}
		c.Nontrivial("cli" + gen.YAML(cfg))
		if i < 1 {
			c.Sample(cas)
		}
	})
}

func h2overlay(a, b map[string]string) map[string]string {
	m := map[string]string{}
	for k, v := range a {
		m[k] = v
	}
	for k, v := range b {
		m[k] = v
	}
	return m
}

// c08nested: overrides written on a stage that INCLUDES a pipeline must not become part of the included pipeline:
// running that pipeline directly (before or after it ran through the including stage, in the same process) behaves
// as in a process that never used the including pipeline.
func c08nested(c *h.Ctx) {
	n := c.N(12, 240)
	h.Par(n, 8, func(i int) {
		r := h.NewRand(c.Seed*15485863+int64(i), "c08nested")
		dir := caseDir(c, fmt.Sprintf("c08n.%d", i))
		defer os.RemoveAll(dir)
		real, _ := filepath.EvalSymlinks(dir)
		os.MkdirAll(real+"/sub", 0o755)
		os.MkdirAll(real+"/sub2", 0o755)
		line := func(trace string) string {
			return fmt.Sprintf("sleep 0.1; printf 'RUN S=[%%s] X=[%%s] Y=[%%s] V=[{{ .V }}] W=[{{ .W }}] pwd=[%%s]\\n' \"$SIB\" \"$X\" \"$Y\" \"$(pwd)\" >> '%s'", trace)
		}
		mk := func(trace string) gen.OM {
			inner1 := gen.OM{{K: "name", V: "i1"}, {K: "task", V: "shared"}}
			if i%3 == 1 {
				inner1.Set("env", gen.OM{{K: "Y", V: "inner-y"}})
			}
			inc := gen.OM{{K: "name", V: "inc"}, {K: "pipeline", V: "inner"}, {K: "env", V: gen.OM{{K: "X", V: "from-outer"}, {K: "Y", V: "outer-y"}}}, {K: "variables", V: gen.OM{{K: "V", V: "from-outer"}}}}
			if i%2 == 0 {
				inc.Set("dir", real+"/sub")
			}
			inc2 := gen.OM{{K: "name", V: "inc"}, {K: "pipeline", V: "inner"}, {K: "env", V: gen.OM{{K: "X", V: "from-outer2"}}}, {K: "variables", V: gen.OM{{K: "W", V: "from-outer2"}}}, {K: "dir", V: real + "/sub2"}}
			return gen.OM{{K: "tasks", V: gen.OM{{K: "shared", V: gen.OM{{K: "command", V: []interface{}{line(trace)}}, {K: "variables", V: gen.OM{{K: "V", V: "task-v"}, {K: "W", V: "task-w"}}}}}}},
				{K: "pipelines", V: gen.OM{{K: "inner", V: []interface{}{inner1, gen.OM{{K: "name", V: "i2"}, {K: "task", V: "shared"}, {K: "depends_on", V: []interface{}{"i1"}}}}},
					// `sib` runs beside the including stage, while the included pipeline is under way
					{K: "outer", V: []interface{}{inc, gen.OM{{K: "name", V: "sib"}, {K: "task", V: "shared"}, {K: "env", V: gen.OM{{K: "SIB", V: "1"}}}}}}, {K: "outer2", V: []interface{}{inc2}}}}}
		}
		run := func(tag string, targets ...string) ([]string, h.ProcResult) {
			trace := real + "/trace." + tag
			f := real + "/" + tag + ".yaml"
			h.WriteFile(f, gen.YAML(mk(trace)))
			res := tc{Dir: real}.run(c, append([]string{"-c", f, "-o", "raw"}, targets...)...)
			c.Eval(1)
			return lines(strings.ReplaceAll(h.ReadFile(trace), trace, "")), res
		}
		ref, res0 := run("ref", "inner")
		forms := [][]string{{"outer", "inner"}, {"inner", "outer", "inner"}, {"outer", "outer2", "inner"}, {"outer2", "inner"}}
		targets := forms[r.Intn(len(forms))]
		got, res := run("mixed", targets...)
		cas := map[string]interface{}{"yaml": gen.YAML(mk("TRACE")), "targets": targets, "alone": ref, "mixed": got, "exit": res.Exit, "stderr": tail(stripANSI(string(res.Stderr)), 300)}
		if crashed, how := res.Crashed(); crashed {
			c.Violate("cli-crash/"+h.TopFrame(string(res.Stderr)), "taskctl died: "+how, cas)
			return
		}
		// the sibling stage of the including stage sees nothing of what was written on the including stage
		var rest []string
		for _, l := range got {
			if strings.Contains(l, "S=[1]") {
				want := strings.Replace(ref[len(ref)-1], "S=[]", "S=[1]", 1)
				if ref1 := strings.Replace(ref[0], "S=[]", "S=[1]", 1); l != want && l != ref1 {
					c.Violate("cli-including-stage-overrides-reach-a-sibling-stage", fmt.Sprintf("`taskctl %s`: the stage beside the including stage printed %q; with its own settings it prints %q", strings.Join(targets, " "), l, want), cas)
				}
				continue
			}
			rest = append(rest, l)
		}
		got = rest
		if res0.Exit != 0 || res.Exit != 0 || len(ref) != 2 || len(got) < 2 {
			c.Violate("cli-nested-run-failed", fmt.Sprintf("exit %d/%d, %d and %d executions recorded", res0.Exit, res.Exit, len(ref), len(got)), cas)
			return
		}
		// the direct run of `inner` is the last target: its two executions are the last two lines
		last := got[len(got)-2:]
		if strings.Join(last, "\n") != strings.Join(ref, "\n") {
			c.Violate("cli-including-stage-overrides-stay-in-included-pipeline", fmt.Sprintf("`taskctl %s`: the direct run of pipeline inner printed %q; in a process that never ran the including pipelines it prints %q", strings.Join(targets, " "), last, ref), cas)
		}
		if targets[0] == "inner" && strings.Join(got[:2], "\n") != strings.Join(ref, "\n") {
			c.Violate("cli-including-stage-overrides-applied-at-load", fmt.Sprintf("`taskctl %s`: the first (direct) run of pipeline inner printed %q, alone it prints %q", strings.Join(targets, " "), got[:2], ref), cas)
		}
		c.Count("cli_nested_override_cases", 1)
		c.Nontrivial(fmt.Sprint("nested", i%6, targets))
	})
}
