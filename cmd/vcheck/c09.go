package main

import (
	"fmt"
	"os"
	"path/filepath"
	"sort"
	"strings"

	"verif/internal/gen"
	"verif/internal/h"
)

var envLevels = []string{"parent", "context", "envfile", "task", "stage", "variation"}

// c09env runs one configuration in which every subset of levels defines its own name.
func c09env(c *h.Ctx, idx int, staged bool, assign string, r *h.Rand, special bool) {
	dir := caseDir(c, fmt.Sprintf("c09e.%d", idx))
	defer os.RemoveAll(dir)
	real, _ := filepath.EvalSymlinks(dir)
	trace := real + "/trace"
	nlev := 6
	levelIdx := []int{0, 1, 2, 3, 4, 5}
	if !staged {
		levelIdx = []int{0, 1, 2, 3, 5}
		nlev = 5
	}
	defs := make([]map[string]string, 6)
	for i := range defs {
		defs[i] = map[string]string{}
	}
	want := map[string]string{}
	wantLevel := map[string]string{}
	want2 := map[string]string{} // expectation in a second variation that defines none of the names
	want2Level := map[string]string{}
	var names []string
	for mask := 1; mask < 1<<uint(nlev); mask++ {
		name := fmt.Sprintf("VN_%s_%02d", assign, mask)
		names = append(names, name)
		top := -1
		for b := 0; b < nlev; b++ {
			if mask&(1<<uint(b)) == 0 {
				continue
			}
			lv := levelIdx[b]
			var val string
			switch assign {
			case "asc":
				val = fmt.Sprintf("%d%s", lv, envLevels[lv])
			case "desc":
				val = fmt.Sprintf("%d%s", 9-lv, envLevels[lv])
			default:
				val = fmt.Sprintf("%c%s%d", "0123456789abcxyzABCXYZ~!"[r.Intn(24)], envLevels[lv], r.Intn(100))
				if special {
					switch r.Intn(6) {
					case 0:
						if lv != 0 {
							val = "" // an empty value at a higher level still wins
						}
					case 1:
						val += " with space"
					case 2:
						if lv != 2 {
							val += "=eq"
						}
					}
				}
			}
			defs[lv][name] = val
			if lv > top {
				top = lv
				want[name] = val
				wantLevel[name] = envLevels[lv]
				if lv != 5 {
					want2[name], want2Level[name] = val, envLevels[lv]
				}
			}
		}
	}
	// env_file
	var ef, efLast []string
	for _, k := range sortedKeys(defs[2]) {
		if wantLevel[k] == "envfile" {
			efLast = append(efLast, k+"="+defs[2][k]) // names that nothing above the env_file defines go last
		} else {
			ef = append(ef, k+"="+defs[2][k])
		}
	}
	ef = append(ef, efLast...)
	envText := strings.Join(ef, "\n")
	if idx%2 == 0 {
		envText += "\n" // every second case: no newline after the last line of the env_file
	}
	h.WriteFile(real+"/vars.env", envText)
	format, argv := "ENV", ""
	all := append(append([]string{}, names...), "PARENT_ONLY", "TASK_NAME", "VOTHER")
	for _, k := range all {
		format += " " + k + "=[%s]"
		argv += fmt.Sprintf(" \"$%s\"", k)
	}
	cmd := fmt.Sprintf("printf '%s\\n'%s >> '%s'", format, argv, trace)
	// the same environment as a started program sees it (the shell's own expansion and the environment handed to
	// child processes are built separately)
	envdump := real + "/envdump"
	cmd2 := fmt.Sprintf("env >> '%s'; printf 'ENDBLOCK\\n' >> '%s'", envdump, envdump)
	tdef := gen.OM{{K: "command", V: []interface{}{cmd, cmd2}}, {K: "context", V: "cx"}, {K: "env_file", V: "vars.env"}, {K: "env", V: defs[3]}, {K: "variations", V: []interface{}{gen.FromStrMap(defs[5]), gen.OM{{K: "VOTHER", V: "second-variation"}}}}}
	cfg := gen.OM{
		{K: "contexts", V: gen.OM{{K: "cx", V: gen.OM{{K: "env", V: defs[1]}}}}},
		{K: "tasks", V: gen.OM{{K: "the-task", V: tdef}}},
	}
	target := "the-task"
	if staged {
		cfg.Set("pipelines", gen.OM{{K: "p", V: []interface{}{gen.OM{{K: "name", V: "s1"}, {K: "task", V: "the-task"}, {K: "env", V: defs[4]}}}}})
		target = "p"
	}
	h.WriteFile(real+"/tasks.yaml", gen.YAML(cfg))
	var penv []string
	for _, k := range sortedKeys(defs[0]) {
		penv = append(penv, k+"="+defs[0][k])
	}
	penv = append(penv, "PARENT_ONLY=from the parent")
	res := tc{Dir: real, Env: penv}.run(c, "-o", "raw", target)
	c.Eval(1)
	got := lines(h.ReadFile(trace))
	cas := map[string]interface{}{"assignment": assign, "staged": staged, "levels": defs, "exit": res.Exit, "stderr": tail(stripANSI(string(res.Stderr)), 500)}
	if crashed, how := res.Crashed(); crashed {
		c.Violate("cli-crash/"+h.TopFrame(string(res.Stderr)), "taskctl died: "+how, cas)
		return
	}
	if res.Exit != 0 || len(got) != 2 {
		c.Violate("env-run-failed", fmt.Sprintf("exit %d, %d trace lines (one per variation expected): %s", res.Exit, len(got), tail(stripANSI(string(res.Stderr)), 300)), cas)
		return
	}
	kv := parseKV(got[0])
	kv2 := parseKV(got[1])
	if kv["VOTHER"] != "" || kv2["VOTHER"] != "second-variation" {
		c.Violate("env-variation-order", fmt.Sprintf("variations not run in declared order / with their own values: VOTHER=%q then %q", kv["VOTHER"], kv2["VOTHER"]), cas)
	}
	for _, n := range names {
		// in the second variation the name is not defined by the current variation: the next level decides
		if kv2[n] != want2[n] {
			from := "?"
			for lv := 0; lv < 6; lv++ {
				if v, ok := defs[lv][n]; ok && v == kv2[n] {
					from = envLevels[lv]
				}
			}
			lvl := want2Level[n]
			if lvl == "" {
				lvl = "nothing"
			}
			c.Violate(fmt.Sprintf("env-precedence/second-variation/%s-beats-%s", from, lvl), fmt.Sprintf("second variation (does not define %s): command saw %q, the statement requires %q [staged=%v]", n, kv2[n], want2[n], staged), cas)
		}
	}
	for _, n := range names {
		c.Count("names_checked", 1)
		if kv[n] != want[n] {
			var have []string
			for lv := 0; lv < 6; lv++ {
				if v, ok := defs[lv][n]; ok {
					have = append(have, envLevels[lv]+"="+fmt.Sprintf("%q", v))
				}
			}
			from := "?"
			for lv := 0; lv < 6; lv++ {
				if v, ok := defs[lv][n]; ok && v == kv[n] {
					from = envLevels[lv]
				}
			}
			c.Violate(fmt.Sprintf("env-precedence/%s-beats-%s", from, wantLevel[n]), fmt.Sprintf("name defined at {%s}: command saw %q, the highest level (%s) has %q [staged=%v]", strings.Join(have, ", "), kv[n], wantLevel[n], want[n], staged), cas)
		}
		c.Nontrivial(fmt.Sprint(n, staged, want[n]))
	}
	blocks := strings.Split(h.ReadFile(envdump), "ENDBLOCK\n")
	if len(blocks) < 2 {
		c.Violate("env-run-failed", fmt.Sprintf("the environment of a started program was recorded %d times (two variations expected)", len(blocks)-1), cas)
		return
	}
	for bi, wantMap := range []map[string]string{want, want2} {
		seen := map[string]string{}
		for _, l := range strings.Split(blocks[bi], "\n") {
			if j := strings.IndexByte(l, '='); j > 0 {
				seen[l[:j]] = l[j+1:]
			}
		}
		for _, n := range names {
			c.Count("names_checked_in_child_processes", 1)
			if seen[n] != wantMap[n] {
				from := "?"
				for lv := 0; lv < 6; lv++ {
					if v, ok := defs[lv][n]; ok && v == seen[n] {
						from = envLevels[lv]
					}
				}
				c.Violate("env-precedence/child-process/"+from+"-wins", fmt.Sprintf("variation %d: a program started by the command sees %s=%q, the statement requires %q (the shell itself expanded it to %q) [staged=%v]", bi+1, n, seen[n], wantMap[n], []map[string]string{kv, kv2}[bi][n], staged), cas)
				break
			}
		}
	}
	if kv["PARENT_ONLY"] != "from the parent" {
		c.Violate("env-parent-passthrough", fmt.Sprintf("PARENT_ONLY=%q", kv["PARENT_ONLY"]), cas)
	}
	if kv["TASK_NAME"] != "the-task" {
		c.Violate("env-task-name", fmt.Sprintf("TASK_NAME=%q, want the-task", kv["TASK_NAME"]), cas)
	}
	if c.NSamples() < 2 {
		c.Sample(map[string]interface{}{"assignment": assign, "staged": staged, "observed": got[0][:min(len(got[0]), 600)]})
	}
}

func sortedKeys(m map[string]string) []string {
	ks := make([]string, 0, len(m))
	for k := range m {
		ks = append(ks, k)
	}
	sort.Strings(ks)
	return ks
}

// c09dir: every subset of {stage dir, task dir, context dir} x invocation from root / sub-directory.
func c09dir(c *h.Ctx, idx int, mask int, taskForm string, fromSub, staged bool) {
	dir := caseDir(c, fmt.Sprintf("c09d.%d", idx))
	defer os.RemoveAll(dir)
	real, _ := filepath.EvalSymlinks(dir)
	trace := real + "/trace"
	for _, d := range []string{"stagedir", "taskdir", "ctxdir", "sub/deeper"} {
		os.MkdirAll(real+"/"+d, 0o755)
	}
	hasStage, hasTask, hasCtx := mask&1 != 0 && staged, mask&2 != 0, mask&4 != 0
	// (the directory is asked of an external program: after a `cd` in an earlier command the shell's own `pwd`/$PWD
	// are stale on the unchanged tree although the commands do run where they should - an observation, see DESIGN)
	pw := func(tag string) string { return fmt.Sprintf("printf '%s=[%%s]\\n' \"$(/bin/pwd)\" >> '%s'", tag, trace) }
	// a command that changes its own directory moves nothing but itself: the next command starts where the levels say
	tdef := gen.OM{{K: "before", V: []interface{}{pw("before") + "; cd /"}}, {K: "command", V: []interface{}{pw("c0") + "; cd /; cd /usr", pw("c1")}}, {K: "after", V: []interface{}{pw("after")}}, {K: "context", V: "cx"}}
	if !hasCtx && idx%2 == 1 {
		// no named context at all: the last resort really is the directory taskctl was started in
		tdef = tdef[:len(tdef)-1]
	}
	if hasTask {
		if taskForm == "root" {
			tdef.Set("dir", "{{.Root}}/taskdir")
		} else {
			tdef.Set("dir", real+"/taskdir")
		}
	}
	cx := gen.OM{{K: "env", V: gen.OM{{K: "CX", V: "1"}}}}
	if hasCtx {
		cx.Set("dir", real+"/ctxdir")
	}
	cfg := gen.OM{{K: "contexts", V: gen.OM{{K: "cx", V: cx}}}, {K: "tasks", V: gen.OM{{K: "t", V: tdef}}}}
	target := "t"
	if staged {
		st := gen.OM{{K: "name", V: "s1"}, {K: "task", V: "t"}}
		if hasStage {
			st.Set("dir", real+"/stagedir")
		}
		cfg.Set("pipelines", gen.OM{{K: "p", V: []interface{}{st}}})
		target = "p"
	}
	h.WriteFile(real+"/tasks.yaml", gen.YAML(cfg))
	cwd := real
	if fromSub {
		cwd = real + "/sub/deeper"
	}
	// taskctl's own $PWD may be stale (a launcher that changes directory without updating it): the directory taskctl
	// was started in is its working directory, whatever $PWD says
	var penv []string
	if idx%3 == 1 {
		penv = []string{"PWD=" + real + "/stagedir"}
	} else if idx%3 == 2 {
		penv = []string{"PWD=" + real}
	}
	res := tc{Dir: cwd, Env: penv}.run(c, "-o", "raw", target)
	c.Eval(1)
	want := cwd
	switch {
	case hasStage:
		want = real + "/stagedir"
	case hasTask:
		want = real + "/taskdir"
	case hasCtx:
		want = real + "/ctxdir"
	}
	got := lines(h.ReadFile(trace))
	cas := map[string]interface{}{"yaml": gen.YAML(cfg), "cwd": cwd, "trace": got, "exit": res.Exit, "stderr": tail(stripANSI(string(res.Stderr)), 400)}
	if crashed, how := res.Crashed(); crashed {
		c.Violate("cli-crash/"+h.TopFrame(string(res.Stderr)), "taskctl died: "+how, cas)
		return
	}
	if res.Exit != 0 || len(got) != 4 {
		c.Violate("dir-run-failed", fmt.Sprintf("exit %d, trace %v: %s", res.Exit, got, tail(stripANSI(string(res.Stderr)), 300)), cas)
		return
	}
	for _, ln := range got {
		for k, v := range parseKV(ln) {
			c.Count("pwd_checked", 1)
			if v != want {
				c.Violate(fmt.Sprintf("dir-precedence/%s", k), fmt.Sprintf("%s ran in %q, the statement requires %q (stage=%v task=%v(%s) context=%v, started in %s)", k, v, want, hasStage, hasTask, taskForm, hasCtx, cwd), cas)
			}
		}
	}
	c.Nontrivial(fmt.Sprint("dir", mask, taskForm, fromSub, staged))
	if idx == 0 {
		c.Sample(cas)
	}
}

// c09dirTemplates: the same dir template under different variable values within one invocation
// (two stages of one task with different stage variables, two tasks sharing the template).
func c09dirTemplates(c *h.Ctx, idx int, fromSub bool) {
	dir := caseDir(c, fmt.Sprintf("c09t.%d", idx))
	defer os.RemoveAll(dir)
	real, _ := filepath.EvalSymlinks(dir)
	trace := real + "/trace"
	for _, d := range []string{"svc/api", "svc/web", "svc/db", "svc/elsewhere", "sub/deeper"} {
		os.MkdirAll(real+"/"+d, 0o755)
	}
	pw := func(tag string) string {
		return fmt.Sprintf("printf '%s:{{.Svc}}=[%%s]\\n' \"$(pwd)\" >> '%s'", tag, trace)
	}
	mkTask := func(svc string) gen.OM {
		t := gen.OM{{K: "dir", V: "{{.Root}}/svc/{{.Svc}}"}, {K: "before", V: []interface{}{pw("before")}}, {K: "command", V: []interface{}{pw("cmd")}}, {K: "after", V: []interface{}{pw("after")}}}
		if svc != "" {
			t.Set("variables", gen.OM{{K: "Svc", V: svc}})
		}
		return t
	}
	cfg := gen.OM{
		{K: "tasks", V: gen.OM{{K: "shared", V: mkTask("")}, {K: "own-db", V: mkTask("db")}}},
		{K: "pipelines", V: gen.OM{{K: "p", V: []interface{}{
			gen.OM{{K: "name", V: "one"}, {K: "task", V: "shared"}, {K: "variables", V: gen.OM{{K: "Svc", V: "api"}}}},
			gen.OM{{K: "name", V: "two"}, {K: "task", V: "shared"}, {K: "variables", V: gen.OM{{K: "Svc", V: "web"}}}, {K: "depends_on", V: []interface{}{"one"}}},
			gen.OM{{K: "name", V: "three"}, {K: "task", V: "own-db"}, {K: "depends_on", V: []interface{}{"two"}}},
		}}}},
	}
	var setArgs []string
	if idx%2 == 0 {
		// the name also has a value at the lowest levels (configuration, --set): the task's and the stage's still decide
		cfg = append(gen.OM{{K: "variables", V: gen.OM{{K: "Svc", V: "elsewhere"}}}}, cfg...)
		if idx%4 == 0 {
			setArgs = []string{"--set", "Svc=elsewhere"}
		}
	}
	h.WriteFile(real+"/tasks.yaml", gen.YAML(cfg))
	cwd := real
	if fromSub {
		cwd = real + "/sub/deeper"
	}
	res := tc{Dir: cwd}.run(c, append(setArgs, "-o", "raw", "p")...)
	c.Eval(1)
	got := lines(h.ReadFile(trace))
	cas := map[string]interface{}{"yaml": gen.YAML(cfg), "cwd": cwd, "trace": got, "exit": res.Exit, "stderr": tail(stripANSI(string(res.Stderr)), 400)}
	if res.Exit != 0 || len(got) != 9 {
		c.Violate("dir-run-failed", fmt.Sprintf("exit %d, trace %v", res.Exit, got), cas)
		return
	}
	for li, ln := range got {
		for k, v := range parseKV(ln) {
			// (the stages form a chain: three lines each, in this order)
			svc := []string{"api", "web", "db"}[li/3]
			c.Count("pwd_checked", 1)
			if v != real+"/svc/"+svc || !strings.HasSuffix(k, ":"+svc) {
				c.Violate("dir-precedence/template-rendered-with-other-values", fmt.Sprintf("%s ran in %q, its dir template renders to %q", k, v, real+"/svc/"+svc), cas)
			}
		}
	}
	c.Nontrivial(fmt.Sprint("dirtemplate", fromSub, idx%4))
}

func c09(c *h.Ctx) {
	c.Rule = "CLI with a controlled parent environment and empty $HOME: every non-empty subset of the six levels (63, stage runs) and of the five levels (31, direct runs) defines its own name, each under value assignments ascending / descending / seeded-shuffled with level (so the winner sorts above and below the losers); dir: every subset of {stage, task ({{.Root}} form and literal), context} x started in the project root / in a sub-directory, pwd in before, each command and after. several tasks (some defining nothing) run directly and as parallel / chained stages of one pipeline in ONE process, names from the parent environment and from the configuration, every execution compared with the levels that apply to it. non-trivial = every distinct (name, subset, winner value) / dir combination / multi-task configuration"
	c.Assumptions = []string{"names defined only by taskctl itself (ARGS, *_OUTPUT) are not examined", "paths are compared after EvalSymlinks"}
	c.Exhaustive = true
	c.Extra("exhaustive_subspace", "63 + 31 level subsets x {asc, desc, shuffled}; 8 dir subsets x 2 task-dir forms x 2 start directories x {staged, direct}")
	type job func()
	var jobs []job
	idx := 0
	shuffles := c.N(2, 40)
	for _, staged := range []bool{true, false} {
		for _, as := range []string{"asc", "desc"} {
			i, st, as := idx, staged, as
			jobs = append(jobs, func() { c09env(c, i, st, as, nil, false) })
			idx++
		}
		for s := 0; s < shuffles; s++ {
			i, st, s := idx, staged, s
			jobs = append(jobs, func() {
				c09env(c, i, st, fmt.Sprint("shuf", s), h.NewRand(c.Seed*131+int64(s), "c09shuf", fmt.Sprint(st)), s%2 == 1)
			})
			idx++
		}
	}
	d := 0
	for mask := 0; mask < 8; mask++ {
		for _, form := range []string{"root", "literal"} {
			for _, sub := range []bool{false, true} {
				for _, staged := range []bool{true, false} {
					if !staged && mask&1 != 0 {
						continue
					}
					if form == "literal" && mask&2 == 0 {
						continue
					}
					i, m, f, s, st := d, mask, form, sub, staged
					jobs = append(jobs, func() { c09dir(c, i, m, f, s, st) })
					d++
				}
			}
		}
	}
	jobs = append(jobs, func() { c09dirTemplates(c, 0, false) }, func() { c09dirTemplates(c, 1, true) }, func() { c09dirTemplates(c, 2, true) }, func() { c09dirTemplates(c, 3, false) })
	for m := 0; m < c.N(60, 1500); m++ {
		m := m
		jobs = append(jobs, func() { c09multi(c, m, h.NewRand(c.Seed*7919+int64(m), "c09multi")) })
	}
	h.Par(len(jobs), 16, func(i int) { jobs[i]() })
}

func min(a, b int) int {
	if a < b {
		return a
	}
	return b
}

func init() { checks["C09"] = checkDef{"exploration", c09} }
