package main

import (
	"fmt"
	"os"
	"os/exec"
	"path/filepath"
	"regexp"
	"sort"
	"strings"
	"sync"
	"syscall"
	"time"

	"github.com/fsnotify/fsnotify"

	"verif/internal/gen"
	"verif/internal/h"
)

// ---- the checker's own glob matcher for the quantifier's grammar:
// literal segments, `*` and `?` inside a segment, `**` as a whole segment (zero or more segments).

func segMatch(pat, s string) bool {
	// classic wildcard match of one path segment
	if pat == "" {
		return s == ""
	}
	switch pat[0] {
	case '*':
		for i := 0; i <= len(s); i++ {
			if segMatch(pat[1:], s[i:]) {
				return true
			}
		}
		return false
	case '?':
		return s != "" && segMatch(pat[1:], s[1:])
	}
	return s != "" && s[0] == pat[0] && segMatch(pat[1:], s[1:])
}

func globMatch(pat, path []string) bool {
	if len(pat) == 0 {
		return len(path) == 0
	}
	if pat[0] == "**" {
		for i := 0; i <= len(path); i++ {
			if globMatch(pat[1:], path[i:]) {
				return true
			}
		}
		return false
	}
	return len(path) > 0 && segMatch(pat[0], path[0]) && globMatch(pat[1:], path[1:])
}

func matchPattern(pattern, path string) bool {
	return globMatch(strings.Split(pattern, "/"), strings.Split(path, "/"))
}

type c20tree struct {
	dirs  []string
	files []string
}

func genTree(r *h.Rand, noDotDirs bool) c20tree {
	var t c20tree
	dnames := []string{"src", "docs", "sub", ".hidden"}
	if noDotDirs {
		// event histories watch files only: a directory called ".hidden" would match `.*` and `*.*`
		dnames = dnames[:3]
	}
	fnames := []string{"a.txt", "b.txt", "c.log", "main.go", "x1.md", ".dotfile", "note", "ab.txt"}
	t.dirs = []string{}
	var all []string
	l1 := r.Range(1, 3)
	for i := 0; i < l1; i++ {
		d := dnames[r.Intn(len(dnames))]
		if !contains(all, d) {
			all = append(all, d)
			if r.Chance(50) {
				d2 := d + "/" + []string{"deep", "pkg"}[r.Intn(2)]
				if !contains(all, d2) {
					all = append(all, d2)
				}
			}
		}
	}
	t.dirs = all
	places := append([]string{""}, all...)
	n := r.Range(3, 12)
	for i := 0; i < n; i++ {
		p := places[r.Intn(len(places))]
		f := fnames[r.Intn(len(fnames))]
		full := f
		if p != "" {
			full = p + "/" + f
		}
		if !contains(t.files, full) {
			t.files = append(t.files, full)
		}
	}
	sort.Strings(t.files)
	sort.Strings(t.dirs)
	return t
}

func contains(xs []string, x string) bool {
	for _, y := range xs {
		if y == x {
			return true
		}
	}
	return false
}

func genPattern(r *h.Rand, t c20tree, filesOnly bool) string {
	exts := []string{"*.txt", "*.log", "*.go", "?.txt", "a*", "*b.txt", "x?.md", "*.*", "note", "a.txt", ".dotfile", ".*"}
	last := exts[r.Intn(len(exts))]
	if !filesOnly && r.Chance(15) {
		last = "*"
	}
	switch r.Intn(6) {
	case 0:
		return last
	case 1:
		return "**/" + last
	case 2:
		if len(t.dirs) > 0 {
			return t.dirs[r.Intn(len(t.dirs))] + "/" + last
		}
		return last
	case 3:
		return "*/" + last
	case 4:
		if len(t.dirs) > 0 {
			d := strings.Split(t.dirs[r.Intn(len(t.dirs))], "/")[0]
			return d + "/**/" + last
		}
		return "**/" + last
	default:
		return "*/*/" + last
	}
}

func (t c20tree) create(root string) {
	for _, d := range t.dirs {
		os.MkdirAll(root+"/"+d, 0o755)
	}
	for _, f := range t.files {
		h.WriteFile(root+"/"+f, "initial\n")
	}
}

func (t c20tree) selected(includes, excludes []string, filesOnly bool) []string {
	var paths []string
	paths = append(paths, t.files...)
	if !filesOnly {
		paths = append(paths, t.dirs...)
	}
	var sel []string
	for _, p := range paths {
		in := false
		for _, pat := range includes {
			if matchPattern(pat, p) {
				in = true
			}
		}
		for _, pat := range excludes {
			if matchPattern(pat, p) {
				in = false
			}
		}
		if in {
			sel = append(sel, p)
		}
	}
	sort.Strings(sel)
	return sel
}

var addWatchRe = regexp.MustCompile(`inotify_add_watch\(\d+, "([^"]*)"`)

type c20op struct {
	Kind string `json:"op"` // append | truncate | chmod | remove | rename
	Path string `json:"path"`
}

type watchProc struct {
	cmd    *exec.Cmd
	stderr *os.File
}

func startWatch(c *h.Ctx, dir, outer, straceLog string, two bool) (*watchProc, error) {
	home := outer + "/home"
	os.MkdirAll(home, 0o755)
	se, _ := os.Create(outer + "/stderr")
	cmd := exec.Command("strace", "-f", "-qq", "-e", "trace=inotify_add_watch,inotify_rm_watch", "-o", straceLog, c.Bin, "-c", outer+"/tasks.yaml", "-d", "watch", "w")
	if two {
		cmd.Args = append(cmd.Args, "w2")
	}
	cmd.Dir = dir
	cmd.Env = h.BaseEnv(home)
	cmd.Stderr = se
	cmd.Stdout = se
	cmd.SysProcAttr = &syscall.SysProcAttr{Setpgid: true}
	c.Count("taskctl_processes", 1)
	if err := cmd.Start(); err != nil {
		return nil, err
	}
	return &watchProc{cmd, se}, nil
}

func (w *watchProc) stop() {
	syscall.Kill(-w.cmd.Process.Pid, syscall.SIGKILL)
	w.cmd.Wait()
	w.stderr.Close()
}

func waitFor(d time.Duration, f func() bool) bool {
	deadline := time.Now().Add(d)
	for time.Now().Before(deadline) {
		if f() {
			return true
		}
		time.Sleep(50 * time.Millisecond)
	}
	return f()
}

var eventNames = []string{"create", "write", "remove", "rename", "chmod"}

func runC20(c *h.Ctx, idx int, events bool) {
	r := h.NewRand(c.Seed*6151+int64(idx), "c20", fmt.Sprint(events))
	dir := caseDir(c, fmt.Sprintf("c20.%v.%d", events, idx))
	defer os.RemoveAll(dir)
	real, _ := filepath.EvalSymlinks(dir)
	tree := genTree(r, events)
	sibling, siblingDir := "", ""
	// whether `dir/**` also names dir itself (zero further segments) is answered differently by glob dialects and
	// not by the statement: that one path is left out of the comparison
	ambiguous := ""
	if !events && (r.Chance(35) || idx%9 == 4) {
		// (selection cases only: with a directory AND its files selected one event is legitimately seen twice)
		// a file whose name extends the name of a directory next to it (docs.yaml beside docs/)
		for _, d := range tree.dirs {
			if !strings.Contains(d, "/") && !strings.HasPrefix(d, ".") {
				siblingDir = d
				sibling = d + []string{".yaml", "-old.txt", "x.md"}[r.Intn(3)]
				tree.files = append(tree.files, sibling)
				if r.Bool() && !contains(tree.dirs, d+"2") {
					// and a directory whose name extends it, with a file of its own
					tree.dirs = append(tree.dirs, d+"2")
					tree.files = append(tree.files, d+"2/b.txt")
					sort.Strings(tree.dirs)
				}
				break
			}
		}
	}
	outer := real // harness files (config, logs, $HOME) live here, outside the watched tree
	real = real + "/tree"
	os.MkdirAll(real, 0o755)
	tree.create(real)
	var inc, exc []string
	for i := 0; i < r.Range(1, 3); i++ {
		inc = append(inc, genPattern(r, tree, events))
	}
	for i := 0; i < r.Intn(3); i++ {
		exc = append(exc, genPattern(r, tree, events))
	}
	if sibling != "" {
		// select the directory and the file beside it
		if r.Bool() {
			inc = append(inc, "*")
		} else {
			inc = append(inc, siblingDir, sibling)
		}
		if r.Bool() {
			// everything below the directory is excluded: that says nothing about names that merely begin like it
			exc = append(exc, siblingDir+"/**")
			inc = append(inc, "*/b.txt")
			ambiguous = siblingDir
			c.Count("exclude_everything_below_a_directory_cases", 1)
		}
	}
	if !events && idx < 100000 && len(tree.dirs) > 0 && (r.Chance(30) || idx%8 == 5) {
		// everything is included and a directory (not what is below it) is excluded: excluding a directory says nothing
		// about its content
		d := tree.dirs[r.Intn(len(tree.dirs))]
		inc = append(inc, []string{"**/*", "**"}[r.Intn(2)])
		exc = append(exc, []string{d, "*/" + d[strings.LastIndexByte(d, '/')+1:], "???", "*"}[r.Intn(4)])
	}
	if idx >= 100000 && !events {
		// many patterns: every file by its own name, and two wildcards on top
		inc, exc = nil, nil
		for _, f := range tree.files {
			inc = append(inc, f)
		}
		inc = append(inc, "**/*.log", "*/*.go")
		if len(tree.files) > 2 {
			exc = []string{tree.files[idx%len(tree.files)]}
		}
	}
	if len(tree.files) > 0 && idx < 100000 && (r.Chance(25) || idx%7 == 3) {
		// a file included by its plain name (no wildcard) and excluded by a pattern: the exclusion wins
		f := tree.files[r.Intn(len(tree.files))]
		inc = append(inc, f)
		base := f[strings.LastIndexByte(f, '/')+1:]
		switch r.Intn(3) {
		case 0:
			exc = append(exc, "**/"+base)
		case 1:
			exc = append(exc, f[:len(f)-len(base)]+"*")
		default:
			if j := strings.LastIndexByte(base, '.'); j > 0 {
				exc = append(exc, "**/*"+base[j:])
			} else {
				exc = append(exc, f)
			}
		}
	}
	sel := tree.selected(inc, exc, false)
	if events && len(sel) == 0 {
		// make sure there is something to operate on
		inc = append(inc, "**/*.txt")
		sel = tree.selected(inc, exc, false)
	}
	var subs []string
	mask := r.Intn(32)
	if idx < 32 && events {
		mask = idx // every subset of the five event types once
	}
	moveBack := events && idx >= 200000
	if moveBack {
		mask |= 2 // writes are subscribed: the history ends with writes to a file that was moved away and back
	}
	for i, e := range eventNames {
		if mask&(1<<uint(i)) != 0 {
			subs = append(subs, e)
		}
	}
	subscribed := map[string]bool{}
	for _, e := range subs {
		subscribed[e] = true
	}
	if len(subs) == 0 {
		for _, e := range eventNames {
			subscribed[e] = true
		}
	}
	runlog := outer + "/runlog"
	// a second watcher in the same invocation (own patterns, own task), and sometimes a named execution
	// context whose before-hook outlasts the watcher's dispatch interval
	var inc2, exc2, sel2 []string
	two := r.Chance(35)
	if two {
		for i := 0; i < r.Range(1, 2); i++ {
			inc2 = append(inc2, genPattern(r, tree, events))
		}
		if r.Chance(40) {
			exc2 = append(exc2, genPattern(r, tree, events))
		}
		if r.Chance(45) {
			// both watchers use textually the same include patterns and differ in what they exclude
			inc2 = append([]string{}, inc...)
			if len(exc) == 0 {
				exc = append(exc, genPattern(r, tree, events))
				sel = tree.selected(inc, exc, false)
			}
			if r.Bool() {
				exc2 = nil
			}
		}
		sel2 = tree.selected(inc2, exc2, false)
	}
	slowCtx := events && r.Chance(40)
	// the task gives EventName / EventPath values of its own (for the start-up run, which has no event): an event
	// still describes itself
	envDefault := events && r.Chance(30)
	w := gen.OM{{K: "watch", V: inc}, {K: "task", V: "t"}}
	if len(exc) > 0 {
		w.Set("exclude", exc)
	}
	if len(subs) > 0 {
		w.Set("events", subs)
	}
	mkTask := func(tag string) gen.OM {
		t := gen.OM{{K: "command", V: []interface{}{fmt.Sprintf("printf '%s name=[%%s] path=[%%s]\\n' \"$EventName\" \"$EventPath\" >> '%s'", tag, runlog)}}}
		if slowCtx {
			t.Set("context", "slow")
		}
		if envDefault {
			t.Set("env", gen.OM{{K: "EventName", V: "at-startup"}, {K: "EventPath", V: "nowhere"}})
		}
		return t
	}
	cfg := gen.OM{{K: "tasks", V: gen.OM{{K: "t", V: mkTask("RUN")}}}, {K: "watchers", V: gen.OM{{K: "w", V: w}}}}
	if slowCtx {
		cfg = append(gen.OM{{K: "contexts", V: gen.OM{{K: "slow", V: gen.OM{{K: "before", V: []interface{}{"sleep 1.5"}}}}}}}, cfg...)
	}
	if two {
		w2 := gen.OM{{K: "watch", V: inc2}, {K: "task", V: "t2"}}
		if len(exc2) > 0 {
			w2.Set("exclude", exc2)
		}
		if len(subs) > 0 {
			w2.Set("events", subs)
		}
		cfg[len(cfg)-2].V = gen.OM{{K: "t", V: mkTask("RUN")}, {K: "t2", V: mkTask("RUN2")}}
		cfg[len(cfg)-1].V = gen.OM{{K: "w", V: w}, {K: "w2", V: w2}}
	}
	h.WriteFile(outer+"/tasks.yaml", gen.YAML(cfg))
	straceLog := outer + "/strace.log"
	cas := map[string]interface{}{"tree_files": tree.files, "tree_dirs": tree.dirs, "include": inc, "exclude": exc, "events": subs, "expected_paths": sel}
	if two {
		cas["second_watcher"] = map[string]interface{}{"include": inc2, "exclude": exc2, "expected_paths": sel2}
	}
	if slowCtx {
		cas["context_before_hook"] = "sleep 1.5"
	}
	if envDefault {
		cas["task_env_defines_EventName_and_EventPath"] = true
	}
	sel1 := sel
	if two {
		// both watchers register with the kernel; the process as a whole must observe the union
		u := append([]string{}, sel...)
		for _, p := range sel2 {
			if !contains(u, p) {
				u = append(u, p)
			}
		}
		sort.Strings(u)
		sel = u
	}

	// reference observer: an independent fsnotify watcher on the expected path set
	var ref *fsnotify.Watcher
	var refMu sync.Mutex
	var refEvents []fsnotify.Event
	if events {
		var rerr error
		ref, rerr = fsnotify.NewWatcher()
		if rerr != nil {
			// (the machine has run out of inotify instances: several checks running side by side)
			c.Inconclusive("the reference observer could not be created: " + rerr.Error())
			return
		}
		defer ref.Close()
		for _, p := range sel {
			ref.Add(real + "/" + p)
		}
		go func() {
			for {
				select {
				case ev, ok := <-ref.Events:
					if !ok {
						return
					}
					refMu.Lock()
					refEvents = append(refEvents, ev)
					refMu.Unlock()
				case _, ok := <-ref.Errors:
					if !ok {
						return
					}
				}
			}
		}()
	}
	wp, err := startWatch(c, real, outer, straceLog, two)
	if err != nil {
		c.Inconclusive("cannot start strace: " + err.Error())
		return
	}
	defer wp.stop()
	c.Eval(1)
	runLines := func() []string { return lines(h.ReadFile(runlog)) }
	nInit := 1
	if two {
		nInit = 2
	}
	if !waitFor(25*time.Second, func() bool { return len(runLines()) >= nInit }) {
		cas["stderr"] = tail(stripANSI(h.ReadFile(outer+"/stderr")), 1500)
		if strings.Contains(h.ReadFile(outer+"/stderr"), "panic:") {
			c.Violate("watch-crash/"+h.TopFrame(h.ReadFile(outer+"/stderr")), "taskctl watch died", cas)
			return
		}
		// re-confirmation is not possible mid-case; treat as inconclusive unless the process already exited
		c.Inconclusive("the watcher's initial run did not appear within 20 s")
		return
	}
	// ---- selection half: what was registered with the kernel
	var got []string
	seen := map[string]bool{}
	for _, m := range addWatchRe.FindAllStringSubmatch(h.ReadFile(straceLog), -1) {
		p := filepath.Clean(m[1])
		if !seen[p] {
			seen[p] = true
			got = append(got, p)
		}
	}
	if ambiguous != "" {
		drop := func(xs []string) []string {
			var o []string
			for _, x := range xs {
				if x != ambiguous {
					o = append(o, x)
				}
			}
			return o
		}
		got, sel = drop(got), drop(sel)
		delete(seen, ambiguous)
	}
	sort.Strings(got)
	cas["registered_paths"] = got
	c.Count("paths_registered", int64(len(got)))
	if strings.Join(got, "\n") != strings.Join(sel, "\n") {
		var missing, extra []string
		for _, p := range sel {
			if !seen[p] {
				missing = append(missing, p)
			}
		}
		for _, p := range got {
			if !contains(sel, p) {
				extra = append(extra, p)
			}
		}
		sig := "selection/paths-differ"
		switch {
		case len(missing) > 0 && len(extra) == 0:
			sig = "selection/selected-path-not-observed"
		case len(extra) > 0 && len(missing) == 0:
			sig = "selection/unselected-path-observed"
		}
		c.Violate(sig, fmt.Sprintf("include %v exclude %v: the watcher registered %v, the patterns select %v (missing %v, extra %v)", inc, exc, got, sel, missing, extra), cas)
	}
	c.Nontrivial(fmt.Sprint(tree.files, inc, exc, subs, inc2, exc2, slowCtx))
	if two {
		c.Count("cases_with_two_watchers", 1)
	}
	if !events {
		if idx < 2 {
			c.Sample(cas)
		}
		return
	}
	// ---- event half
	{
		init := append([]string{}, runLines()...)
		sort.Strings(init)
		wantInit := "RUN name=[] path=[]"
		if two {
			wantInit = "RUN name=[] path=[] RUN2 name=[] path=[]"
		}
		if envDefault {
			wantInit = strings.ReplaceAll(wantInit, "name=[] path=[]", "name=[at-startup] path=[nowhere]")
		}
		if strings.Join(init, " ") != wantInit {
			c.Violate("events/initial-run", fmt.Sprintf("expected exactly one initial run (empty event) per watcher, saw %v", init), cas)
		}
	}
	refTotal, runTotal, forbiddenEver := map[string]int{}, map[string]int{}, map[string]bool{}
	dead := map[string]bool{}
	pool := append([]string{}, tree.files...)
	var history []map[string]interface{}
	nops := r.Range(3, 6)
	served := 0
	// structured histories (every second case whose subscription allows it)
	quietOp, loudOp := "", ""
	switch {
	case !subscribed["chmod"]:
		quietOp = "chmod"
	case !subscribed["write"]:
		quietOp = "append"
	}
	switch {
	case subscribed["write"] && quietOp != "append":
		loudOp = "append"
	case subscribed["chmod"] && quietOp != "chmod":
		loudOp = "chmod"
	case subscribed["remove"]:
		loudOp = "remove"
	case subscribed["rename"]:
		loudOp = "rename"
	}
	structured := idx%2 == 1 && quietOp != "" && loudOp != ""
	if structured {
		nops = 6
		c.Count("structured_histories", 1)
	}
	// a watched file is moved away, moved back after the watcher has dealt with that, and then written to: the path
	// is an observed one again and the watcher is still running
	moveTarget := ""
	if moveBack && len(sel1) > 0 {
		structured = false
		nops = 4
		moveTarget = sel1[r.Intn(len(sel1))]
		c.Count("moved_away_and_back_histories", 1)
	}
	renamed := map[string]bool{}
	for k := 0; k < nops; k++ {
		var cand []string
		for _, f := range pool {
			if !dead[f] {
				cand = append(cand, f)
			}
		}
		if len(cand) == 0 && moveTarget == "" {
			break
		}
		if len(cand) == 0 {
			cand = []string{moveTarget}
		}
		// prefer watched files two times out of three
		var target string
		var watched []string
		for _, f := range cand {
			if contains(sel, f) {
				watched = append(watched, f)
			}
		}
		if len(watched) > 0 && r.Chance(67) {
			target = watched[r.Intn(len(watched))]
		} else {
			target = cand[r.Intn(len(cand))]
		}
		op := c20op{Kind: []string{"append", "truncate", "chmod", "remove", "rename", "append", "chmod"}[r.Intn(7)], Path: target}
		if structured {
			// five events of an unsubscribed type on watched files, then one of a subscribed type:
			// the watcher has to keep serving after events it ignores
			if len(watched) > 0 {
				op.Path = watched[r.Intn(len(watched))]
			}
			if k < nops-1 {
				op.Kind = quietOp
			} else {
				op.Kind = loudOp
			}
		}
		if moveTarget != "" {
			op = c20op{Kind: []string{"rename", "rename-back", "append", "append"}[k], Path: moveTarget}
		} else if !structured && r.Chance(50) {
			for _, f := range pool {
				if renamed[f] {
					op = c20op{Kind: "rename-back", Path: f}
					break
				}
			}
		}
		target = op.Path
		before := len(runLines())
		refMu.Lock()
		refBefore := len(refEvents)
		refMu.Unlock()
		full := real + "/" + target
		switch op.Kind {
		case "append":
			f, _ := os.OpenFile(full, os.O_APPEND|os.O_WRONLY, 0o644)
			f.WriteString("more\n")
			f.Close()
		case "truncate":
			os.WriteFile(full, []byte("rewritten\n"), 0o644)
		case "chmod":
			os.Chmod(full, os.FileMode(0o600+r.Intn(2)*0o044))
		case "remove":
			os.Remove(full)
			dead[target] = true
		case "rename":
			os.Rename(full, full+".renamed")
			dead[target] = true
			renamed[target] = true
		case "rename-back":
			os.Rename(full+".renamed", full)
			dead[target] = false
			renamed[target] = false
		}
		opEvent := op.Kind
		if opEvent == "rename-back" {
			opEvent = "rename"
		}
		if slowCtx && k == 0 && len(watched) >= 2 && (op.Kind == "append" || op.Kind == "chmod") {
			// a second event on another file while the run for the first one is still in the context's
			// before-hook: every run must still report its own event
			other := watched[0]
			if other == target {
				other = watched[1]
			}
			time.Sleep(1100 * time.Millisecond)
			if op.Kind == "append" {
				if f, err := os.OpenFile(real+"/"+other, os.O_APPEND|os.O_WRONLY, 0o644); err == nil {
					f.WriteString("more\n")
					f.Close()
				}
			} else {
				os.Chmod(real+"/"+other, 0o640)
			}
			c.Count("overlapping_event_pairs", 1)
		}
		time.Sleep(300 * time.Millisecond) // let the reference observer drain
		refMu.Lock()
		evs := append([]fsnotify.Event{}, refEvents[refBefore:]...)
		refMu.Unlock()
		// expectation from the reference events
		want := map[string]int{}
		forbidden := map[string]bool{}
		multi := false
		for _, ev := range evs {
			name, ok := map[fsnotify.Op]string{fsnotify.Create: "create", fsnotify.Write: "write", fsnotify.Remove: "remove", fsnotify.Rename: "rename", fsnotify.Chmod: "chmod"}[ev.Op]
			if !ok {
				multi = true // several bits set: not determined
				continue
			}
			rel, _ := filepath.Rel(real, ev.Name)
			if (opEvent == "remove" || opEvent == "rename") && name != opEvent {
				// the attribute change that accompanies an unlink/rename is delivered or dropped depending on
				// whether the file still exists when the watcher gets to it: not determined
				for _, tag := range []string{"RUN", "RUN2"} {
					refTotal[fmt.Sprintf("%s name=[%s] path=[%s]", tag, name, rel)] += 2
				}
				continue
			}
			for _, wk := range []struct {
				tag string
				sel []string
			}{{"RUN", sel1}, {"RUN2", sel2}} {
				if !contains(wk.sel, rel) {
					continue
				}
				key := fmt.Sprintf("%s name=[%s] path=[%s]", wk.tag, name, rel)
				if subscribed[name] {
					want[key]++
				} else {
					forbidden[key] = true
				}
			}
		}
		total := 0
		for _, n := range want {
			total += n
		}
		// the watcher dequeues one event per second
		wd := time.Duration(len(evs)+3)*1200*time.Millisecond + 15*time.Second
		if len(want) == 0 {
			wd = 0 // nothing expected: the fixed pause below gives an unexpected run the time to show up
		}
		waitFor(wd, func() bool {
			seenKeys := map[string]bool{}
			for _, l := range runLines()[before:] {
				seenKeys[l] = true
			}
			for k := range want {
				if !seenKeys[k] {
					return false
				}
			}
			return false || len(want) > 0 && len(seenKeys) >= len(want)
		})
		if len(want) == 0 {
			time.Sleep(time.Duration(len(evs)+1) * 1200 * time.Millisecond)
		}
		after := runLines()[before:]
		hist := map[string]interface{}{"op": op, "reference_events": fmt.Sprint(evs), "runs": after}
		history = append(history, hist)
		cas["history"] = history
		c.Count("operations", 1)
		c.Count("reference_events", int64(len(evs)))
		if multi {
			continue
		}
		gotCount := map[string]int{}
		for _, l := range after {
			gotCount[l]++
		}
		// cumulative accounting: a second run for an operation with two events (truncate-write) may arrive while
		// the next operation is already under way, so runs are matched against all reference events so far
		for l, n := range want {
			refTotal[l] += n
		}
		for l := range forbidden {
			forbiddenEver[l] = true
		}
		for l, n := range gotCount {
			runTotal[l] += n
			if forbiddenEver[l] && refTotal[l] == 0 {
				c.Violate("events/ran-for-unsubscribed-event", fmt.Sprintf("after %s %s the task ran %dx with %s, but that event type is not subscribed (%v)", op.Kind, op.Path, n, l, subs), cas)
			} else if refTotal[l] == 0 {
				c.Violate("events/ran-for-unobserved-path-or-event", fmt.Sprintf("after %s %s the task ran with %s; the reference observer never saw such an event (this operation: %v)", op.Kind, op.Path, l, evs), cas)
			} else if bound := refTotal[l] * map[bool]int{true: 2, false: 1}[strings.Contains(l, "name=[write]")]; runTotal[l] > bound {
				// (the kernel merges identical events that are still unread in ONE observer's queue - the two
				// modifications of a truncate-and-write may reach the reference observer as one and the watcher as
				// two, so for writes the reference count is a lower bound of what happened, doubled here)
				c.Violate("events/ran-more-often-than-events", fmt.Sprintf("after %s %s the task has run %dx with %s for %d events in total", op.Kind, op.Path, runTotal[l], l, refTotal[l]), cas)
			}
		}
		missing := func() bool {
			seenKeys := map[string]bool{}
			for _, l := range runLines()[before:] {
				seenKeys[l] = true
			}
			for l := range want {
				if !seenKeys[l] {
					return true
				}
			}
			return false
		}
		if len(want) > 0 && missing() {
			// bounded progress: give a loaded machine another 90 s before the event counts as not served
			if waitFor(90*time.Second, func() bool { return !missing() }) {
				c.Inconclusive(fmt.Sprintf("a subscribed event after %s %s was served only after more than %d s (machine under load)", op.Kind, op.Path, int(wd.Seconds())))
			}
			after = runLines()[before:]
			for _, l := range after[len(gotCount):] {
				_ = l
			}
			gotCount = map[string]int{}
			for _, l := range after {
				gotCount[l]++
			}
		}
		for l := range want {
			if gotCount[l] == 0 {
				sig := "events/subscribed-event-did-not-run-task"
				if served > 0 {
					sig = "events/later-event-not-served"
				}
				c.Violate(sig, fmt.Sprintf("after %s %s the reference observer saw a subscribed event (%s) but the task did not run within %d s", op.Kind, op.Path, l, (len(evs)+3)*12/10), cas)
			} else {
				served++
				c.Count("events_served", 1)
			}
		}
	}
	if idx < 2 {
		c.Sample(cas)
	}
}

func c20(c *h.Ctx) {
	c.Rule = "CLI `taskctl watch` under strace in a generated tree (<=3 levels, <=12 files incl. dot-files): selection = 1..3 include and 0..2 exclude patterns from the glob grammar (literal segments, *, ?, ** as a whole segment); the set of paths in inotify_add_watch calls must equal the set selected by the checker's own matcher. Events: every subset of the five event types (32) x histories of 3..6 operations (append, truncate-write, chmod, remove, rename, rename back to the selected name) on watched, excluded and unrelated files, paced to the watcher's one-event-per-second loop; an independent fsnotify watcher on the expected path set is the reference observer; multiplicity-tolerant oracle (1..#reference events runs for a subscribed type, 0 for unsubscribed / unobserved). non-trivial = distinct (tree, patterns, events) cases"
	c.Assumptions = []string{"events whose fsnotify op has several bits set, events for children of an observed directory (event workloads select files only) and anything on a path after it was removed, or renamed away and not yet back, are not determined", "the watcher serves one event per second (fixed sleep), so histories are paced; 'keeps serving' is decided for the length of the generated history", "strace reports the syscalls of the real binary"}
	if _, err := exec.LookPath("strace"); err != nil {
		c.Inconclusive("strace not available")
		return
	}
	nsel := c.N(24, 600)
	nev := c.N(32, 320)
	type job struct {
		idx int
		ev  bool
	}
	var jobs []job
	for i := 0; i < nev; i++ {
		jobs = append(jobs, job{i, true})
	}
	for i := 0; i < nsel; i++ {
		jobs = append(jobs, job{i, false})
	}
	for i := 0; i < c.N(8, 60); i++ {
		jobs = append(jobs, job{200000 + i, true})
	}
	// selection cases with a dozen include patterns each (one per file, plus wildcards): every one of them counts
	for i := 0; i < c.N(40, 400); i++ {
		jobs = append(jobs, job{100000 + i, false})
	}
	h.Par(len(jobs), 32, func(i int) { runC20(c, jobs[i].idx, jobs[i].ev) })
	c20race(c)
}

// c20race: building the watchers of a configuration (many include patterns, several watchers) in a taskctl binary
// built with the race detector; reports whose stacks touch internal/watch are attributed to this property.
func c20race(c *h.Ctx) {
	bin := filepath.Join(c.BinDir, "taskctl-race")
	if _, err := os.Stat(bin); err != nil {
		c.Count("no_race_build_of_taskctl", 1)
		return
	}
	n := c.N(12, 120)
	h.Par(n, 8, func(i int) {
		r := h.NewRand(c.Seed*2741+int64(i), "c20race")
		dir := caseDir(c, fmt.Sprintf("c20race.%d", i))
		defer os.RemoveAll(dir)
		real, _ := filepath.EvalSymlinks(dir)
		tree := genTree(r, false)
		tree.create(real + "/tree")
		ws := gen.OM{}
		for w := 0; w < r.Range(1, 3); w++ {
			var inc []interface{}
			for _, f := range tree.files {
				inc = append(inc, "tree/"+f)
			}
			inc = append(inc, "tree/**/*.log", "tree/*/*.go", "tree/**/*.txt")
			ws.Set(fmt.Sprintf("w%d", w), gen.OM{{K: "watch", V: inc}, {K: "exclude", V: []interface{}{"tree/**/x1.md"}}, {K: "task", V: "t"}})
		}
		cfg := gen.OM{{K: "tasks", V: gen.OM{{K: "t", V: gen.OM{{K: "command", V: []interface{}{"true"}}}}}}, {K: "watchers", V: ws}}
		h.WriteFile(real+"/tasks.yaml", gen.YAML(cfg))
		logp := real + "/race.log"
		home := filepath.Join(c.Work, "emptyhome")
		os.MkdirAll(home, 0o755)
		res := h.Proc{Argv: []string{bin, "-c", real + "/tasks.yaml", "list"}, Dir: real, Env: h.BaseEnv(home, "GORACE=halt_on_error=0 exitcode=0 log_path="+logp), Timeout: 60 * time.Second}.Run()
		c.Eval(1)
		c.Count("race_build_loads", 1)
		if crashed, how := res.Crashed(); crashed {
			c.Violate("watch-crash/"+h.TopFrame(string(res.Stderr)), "taskctl (race build) died while building watchers: "+how, map[string]interface{}{"yaml": gen.YAML(cfg), "stderr": tail(string(res.Stderr), 2000)})
			return
		}
		foldRaceLogs(c, real, []string{"internal/watch/watch.go", "internal/config/watcher.go"})
		c.Nontrivial(fmt.Sprint("race", i))
	})
}

func init() { checks["C20"] = checkDef{"exploration", c20} }
