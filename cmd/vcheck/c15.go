package main

import (
	"fmt"
	"net"
	"net/http"
	"os"
	"path/filepath"
	"sort"
	"strings"
	"time"

	"verif/internal/gen"
	"verif/internal/h"
)

// baseConfig: a well-formed configuration touching every documented key.
func baseConfig() gen.OM {
	return gen.OM{
		{K: "import", V: []interface{}{"inc/extra.yaml"}},
		{K: "debug", V: false},
		{K: "output", V: "raw"},
		{K: "variables", V: gen.OM{{K: "V1", V: "x"}}},
		{K: "contexts", V: gen.OM{{K: "c1", V: gen.OM{
			{K: "dir", V: "."}, {K: "up", V: []interface{}{"true"}}, {K: "down", V: []interface{}{"true"}},
			{K: "before", V: []interface{}{"true"}}, {K: "after", V: []interface{}{"true"}},
			{K: "env", V: gen.OM{{K: "A", V: "1"}}}, {K: "variables", V: gen.OM{{K: "CV", V: "v"}}},
			{K: "executable", V: gen.OM{{K: "bin", V: "/bin/sh"}, {K: "args", V: []interface{}{"-c"}}}}, {K: "quote", V: "'"},
		}}}},
		{K: "tasks", V: gen.OM{
			{K: "t1", V: gen.OM{
				{K: "description", V: "d"}, {K: "condition", V: "true"}, {K: "command", V: []interface{}{"echo 1", "echo 2"}},
				{K: "before", V: []interface{}{"true"}}, {K: "after", V: []interface{}{"true"}}, {K: "context", V: "c1"},
				{K: "variations", V: []interface{}{gen.OM{{K: "X", V: "1"}}, gen.OM{{K: "X", V: "2"}}}},
				{K: "dir", V: "."}, {K: "timeout", V: "10s"}, {K: "allow_failure", V: true}, {K: "interactive", V: false},
				{K: "exportAs", V: "T1OUT"}, {K: "env", V: gen.OM{{K: "E", V: "1"}}}, {K: "env_file", V: "vars.env"},
				{K: "variables", V: gen.OM{{K: "TV", V: "1"}}},
			}},
			{K: "t2", V: gen.OM{{K: "command", V: "echo single"}}},
		}},
		{K: "pipelines", V: gen.OM{
			{K: "p1", V: []interface{}{
				gen.OM{{K: "task", V: "t1"}},
				gen.OM{{K: "name", V: "s2"}, {K: "task", V: "t2"}, {K: "depends_on", V: "t1"}, {K: "condition", V: "true"}, {K: "allow_failure", V: true},
					{K: "dir", V: "."}, {K: "env", V: gen.OM{{K: "S", V: "1"}}}, {K: "variables", V: gen.OM{{K: "SV", V: "1"}}}},
				gen.OM{{K: "name", V: "nested"}, {K: "pipeline", V: "p2"}, {K: "depends_on", V: []interface{}{"s2"}}},
			}},
			{K: "p2", V: []interface{}{gen.OM{{K: "task", V: "t2"}}}},
		}},
		{K: "watchers", V: gen.OM{{K: "w1", V: gen.OM{
			{K: "events", V: []interface{}{"write"}}, {K: "watch", V: []interface{}{"*.txt"}}, {K: "exclude", V: []interface{}{"x.txt"}},
			{K: "task", V: "t1"}, {K: "variables", V: gen.OM{{K: "WV", V: "1"}}},
		}}}},
	}
}

type pathStep struct {
	key string
	idx int
}

// walk enumerates every node (path) of the tree.
func walk(v interface{}, cur []pathStep, f func(path []pathStep, v interface{})) {
	f(cur, v)
	switch x := v.(type) {
	case gen.OM:
		for _, kv := range x {
			walk(kv.V, append(append([]pathStep{}, cur...), pathStep{key: kv.K, idx: -1}), f)
		}
	case []interface{}:
		for i, e := range x {
			walk(e, append(append([]pathStep{}, cur...), pathStep{idx: i}), f)
		}
	}
}

func cloneTree(v interface{}) interface{} {
	switch x := v.(type) {
	case gen.OM:
		var o gen.OM
		for _, kv := range x {
			o = append(o, gen.KV{K: kv.K, V: cloneTree(kv.V)})
		}
		if o == nil {
			o = gen.OM{}
		}
		return o
	case []interface{}:
		o := make([]interface{}, len(x))
		for i := range x {
			o[i] = cloneTree(x[i])
		}
		return o
	}
	return v
}

// mutate returns a copy of root with the node at path replaced (del: removed).
func mutate(root interface{}, path []pathStep, repl interface{}, del bool) interface{} {
	if len(path) == 0 {
		return repl
	}
	st := path[0]
	switch x := root.(type) {
	case gen.OM:
		var o gen.OM
		for _, kv := range x {
			if kv.K == st.key && st.idx == -1 {
				if len(path) == 1 && del {
					continue
				}
				o = append(o, gen.KV{K: kv.K, V: mutate(kv.V, path[1:], repl, del)})
			} else {
				o = append(o, gen.KV{K: kv.K, V: cloneTree(kv.V)})
			}
		}
		if o == nil {
			o = gen.OM{}
		}
		return o
	case []interface{}:
		var o []interface{}
		for i, e := range x {
			if i == st.idx {
				if len(path) == 1 && del {
					continue
				}
				o = append(o, mutate(e, path[1:], repl, del))
			} else {
				o = append(o, cloneTree(e))
			}
		}
		if o == nil {
			o = []interface{}{}
		}
		return o
	}
	return root
}

func pathString(p []pathStep) string {
	var b strings.Builder
	for _, s := range p {
		if s.idx >= 0 {
			fmt.Fprintf(&b, "[%d]", s.idx)
		} else {
			b.WriteString("/" + s.key)
		}
	}
	if b.Len() == 0 {
		return "/"
	}
	return b.String()
}

type replacement struct {
	name string
	v    interface{}
}

var replacements = []replacement{
	{"null", nil}, {"string", "zzz"}, {"empty-string", ""}, {"int", 7}, {"bool", true}, {"float", 1.5},
	{"empty-list", []interface{}{}}, {"list-of-strings", []interface{}{"a", "b"}}, {"list-of-ints", []interface{}{1, 2}}, {"list-of-null", []interface{}{nil}},
	{"list-of-maps", []interface{}{gen.OM{{K: "k", V: "v"}}}}, {"empty-map", gen.OM{}}, {"map-of-strings", gen.OM{{K: "k", V: "v"}}},
	{"map-of-null", gen.OM{{K: "k", V: nil}}}, {"map-of-maps", gen.OM{{K: "k", V: gen.OM{{K: "kk", V: "v"}}}}}, {"huge-int", gen.Raw("99999999999999999999999")},
	{"negative", -3},
	// strings that are not empty and yet hold nothing: code that splits a value into words finds none
	{"blank-string", " "}, {"tab-blank-string", "\t "}, {"newline-string", "\n"},
}

type fileCase struct {
	name    string // description (mutation)
	ext     string
	content string
	aux     map[string]string // extra files relative to the case dir
}

func emitAll(tree interface{}, name string) []fileCase {
	var r []fileCase
	try := func(ext string, f func() string) {
		defer func() { recover() }() // a shape the format cannot express
		r = append(r, fileCase{name: name, ext: ext, content: f()})
	}
	try(".yaml", func() string { return gen.YAML(tree) })
	try(".json", func() string { return gen.JSON(tree) })
	if om, ok := tree.(gen.OM); ok {
		try(".toml", func() string { return gen.TOML(om, false) })
	}
	return r
}

func c15cases(c *h.Ctx) []fileCase {
	base := baseConfig()
	var cases []fileCase
	cases = append(cases, emitAll(base, "base")...)
	// first-order mutants: every node x every replacement, deletion, unknown key
	walk(base, nil, func(p []pathStep, v interface{}) {
		if len(p) == 0 {
			for _, rp := range replacements {
				cases = append(cases, emitAll(rp.v, "root:="+rp.name)...)
			}
			return
		}
		ps := pathString(p)
		for _, rp := range replacements {
			cases = append(cases, emitAll(mutate(base, p, rp.v, false), ps+":="+rp.name)...)
		}
		cases = append(cases, emitAll(mutate(base, p, nil, true), ps+":deleted")...)
		if om, ok := v.(gen.OM); ok {
			o2 := append(cloneTree(om).(gen.OM), gen.KV{K: "unknown_key", V: "u"})
			cases = append(cases, emitAll(mutate(base, p, o2, false), ps+":unknown-key")...)
			o3 := append(cloneTree(om).(gen.OM), gen.KV{K: "", V: "empty key"})
			cases = append(cases, emitAll(mutate(base, p, o3, false), ps+":empty-key")...)
		}
	})
	// higher-order seeded mutants
	var nodes [][]pathStep
	walk(base, nil, func(p []pathStep, v interface{}) {
		if len(p) > 0 {
			nodes = append(nodes, p)
		}
	})
	rnd := c.Rand("c15-higher")
	for i := 0; i < c.N(300, 20000); i++ {
		var t interface{} = base
		desc := ""
		for k := 0; k < rnd.Range(2, 4); k++ {
			p := nodes[rnd.Intn(len(nodes))]
			rp := replacements[rnd.Intn(len(replacements))]
			func() {
				defer func() { recover() }()
				if rnd.Chance(20) {
					t = mutate(t, p, nil, true)
					desc += pathString(p) + ":deleted;"
				} else {
					t = mutate(t, p, rp.v, false)
					desc += pathString(p) + ":=" + rp.name + ";"
				}
			}()
		}
		cases = append(cases, emitAll(t, "seeded:"+desc)...)
	}
	// textual shapes
	y := gen.YAML(base)
	step := c.N(97, 7)
	for k := 0; k < len(y); k += step {
		cases = append(cases, fileCase{name: fmt.Sprintf("yaml-truncated@%d", k), ext: ".yaml", content: y[:k]})
	}
	j := gen.JSON(base)
	for k := 0; k < len(j); k += step * 2 {
		cases = append(cases, fileCase{name: fmt.Sprintf("json-truncated@%d", k), ext: ".json", content: j[:k]})
	}
	tm := gen.TOML(base, false)
	for k := 0; k < len(tm); k += step * 2 {
		cases = append(cases, fileCase{name: fmt.Sprintf("toml-truncated@%d", k), ext: ".toml", content: tm[:k]})
	}
	text := map[string]string{
		"empty":               "",
		"only-comment":        "# nothing\n",
		"only-document-mark":  "---\n",
		"two-documents":       "tasks:\n  a:\n    command: [\"true\"]\n---\ntasks:\n  b:\n    command: [\"true\"]\n",
		"bom":                 "\xef\xbb\xbf" + y,
		"crlf":                strings.ReplaceAll(y, "\n", "\r\n"),
		"nul-bytes":           "tasks:\n  a\x00b:\n    command: [\"tr\x00ue\"]\n",
		"invalid-utf8":        "tasks:\n  \xff\xfe:\n    command: [\"\xc3\x28\"]\n",
		"tabs":                "tasks:\n\tt1:\n\t\tcommand: x\n",
		"anchors":             "base: &b\n  command: [\"true\"]\ntasks:\n  t1: *b\n  t2:\n    <<: *b\n    dir: \".\"\n",
		"anchor-unknown-top":  "x: &b {command: [\"true\"]}\ntasks: {t1: *b}\n",
		"alias-undefined":     "tasks:\n  t1: *nope\n",
		"merge-non-map":       "tasks:\n  t1:\n    <<: [1,2]\n",
		"alias-bomb":          "a: &a [\"x\",\"x\",\"x\",\"x\",\"x\",\"x\",\"x\",\"x\"]\nb: &b [*a,*a,*a,*a,*a,*a,*a,*a]\nc: &c [*b,*b,*b,*b,*b,*b,*b,*b]\nd: &d [*c,*c,*c,*c,*c,*c,*c,*c]\ntasks: {t1: {command: *d}}\n",
		"recursive-alias":     "tasks: &t\n  t1: *t\n",
		"non-string-keys":     "tasks:\n  1: {command: [\"true\"]}\n  true: {command: [\"true\"]}\n  null: {command: [\"true\"]}\n  [a]: {command: [\"true\"]}\n",
		"duplicate-keys":      "tasks:\n  t1: {command: [\"true\"]}\n  t1: {command: [\"false\"]}\ntasks:\n  t2: {command: [\"true\"]}\n",
		"task-empty-body":     "tasks:\n  t1:\n",
		"stage-empty":         "tasks:\n  t1: {command: [\"true\"]}\npipelines:\n  p1:\n    - \n    - task: t1\n",
		"context-empty":       "contexts:\n  c1:\ntasks:\n  t1: {command: [\"true\"], context: c1}\n",
		"watcher-empty":       "tasks:\n  t1: {command: [\"true\"]}\nwatchers:\n  w1:\n",
		"import-scalar":       "import: inc/extra.yaml\n",
		"import-ints":         "import: [1, 2]\n",
		"import-null-entry":   "import: [null]\n",
		"import-map-entry":    "import: [{a: b}]\n",
		"import-dir":          "import: [\"inc\"]\n",
		"import-missing":      "import: [\"nope.yaml\"]\n",
		"import-self":         "import: [\"f.yaml\"]\ntasks: {t1: {command: [\"true\"]}}\n",
		"import-unsupported":  "import: [\"vars.env\"]\n",
		"import-broken":       "import: [\"inc/broken.yaml\"]\n",
		"import-wrongtype":    "import: [\"inc/wrong.yaml\"]\n",
		"stage-pipeline-dir":  "tasks: {t1: {command: [\"true\"]}}\npipelines:\n  p2: [{task: t1}]\n  p1: [{pipeline: p2, dir: \"/tmp\"}]\n",
		"stage-no-task":       "tasks: {t1: {command: [\"true\"]}}\npipelines:\n  p1: [{name: x}]\n",
		"timeout-garbage":     "tasks: {t1: {command: [\"true\"], timeout: \"soon\"}}\n",
		"timeout-negative":    "tasks: {t1: {command: [\"true\"], timeout: -5}}\n",
		"timeout-float":       "tasks: {t1: {command: [\"true\"], timeout: 1.5}}\n",
		"bool-garbage":        "tasks: {t1: {command: [\"true\"], allow_failure: \"maybe\"}}\n",
		"deep-nesting":        "tasks: {t1: {command: [[[[[[[[[[\"true\"]]]]]]]]]]}}\n",
		"long-line":           "tasks: {t1: {command: [\"" + strings.Repeat("x", 200000) + "\"]}}\n",
		"many-tasks":          manyTasks(3000),
		"watcher-bad-glob":    "tasks: {t1: {command: [\"true\"]}}\nwatchers: {w1: {watch: [\"[\"], task: t1}}\n",
		"watcher-bad-exclude": "tasks: {t1: {command: [\"true\"]}}\nwatchers: {w1: {watch: [\"*\"], exclude: [\"[\"], task: t1}}\n",
		"output-unknown":      "output: sparkly\ntasks: {t1: {command: [\"true\"]}}\n",
		"variations-scalars":  "tasks: {t1: {command: [\"true\"], variations: [1, 2]}}\n",
		"env-nested":          "tasks: {t1: {command: [\"true\"], env: {A: {B: c}}}}\n",
		"env-null-value":      "tasks: {t1: {command: [\"true\"], env: {A: null}}}\n",
		"env-list-value":      "tasks: {t1: {command: [\"true\"], env: {A: [1]}}}\n",
		"variables-null":      "variables: {A: null}\ntasks: {t1: {command: [\"echo {{.A}}\"]}}\n",
	}
	text["layered-dag-declared-bottom-up"] = layeredDag(30)
	// names outside ASCII (several bytes per character) together with descriptions, which `list` and `show` print
	text["names/cyrillic-with-descriptions"] = "tasks:\n  сборка-проекта-целиком: {command: [\"true\"], description: \"собрать всё\"}\n  t1: {command: [\"true\"], description: \"short\"}\n  проверка: {command: [\"true\"]}\npipelines:\n  p1: [{task: t1}, {task: проверка, depends_on: [t1]}]\n"
	text["names/accented-cjk-emoji"] = "tasks:\n  déploiement-général-été: {command: [\"true\"], description: \"d\"}\n  构建全部项目任务: {command: [\"true\"], description: \"构建\"}\n  \"🚀🚀🚀🚀🚀🚀\": {command: [\"true\"], description: \"launch\"}\n  t1: {command: [\"true\"]}\n"
	text["names/combining-and-wide"] = "tasks:\n  \"a\u0301\u0301\u0301\u0301\u0301\u0301\u0301\u0301\": {command: [\"true\"], description: \"combining\"}\n  ｆｕｌｌｗｉｄｔｈ: {command: [\"true\"], description: \"wide\"}\n"
	// env_file paths that are not regular readable files
	text["env-file/is-the-directory-itself"] = "tasks: {t1: {command: [\"true\"], env_file: \".\"}}\n"
	text["env-file/is-a-sub-directory"] = "tasks: {t1: {command: [\"true\"], env_file: \"inc\"}}\n"
	text["env-file/is-a-sub-directory-slash"] = "tasks: {t1: {command: [\"true\"], env_file: \"inc/\"}}\n"
	text["env-file/missing"] = "tasks: {t1: {command: [\"true\"], env_file: \"no/such.env\"}}\n"
	text["env-file/dev-null"] = "tasks: {t1: {command: [\"true\"], env_file: \"/dev/null\"}}\n"
	// two stages with one name where the stage that holds the name includes a pipeline
	text["dup-stage/pipeline-included-twice"] = "tasks: {t1: {command: [\"true\"]}}\npipelines:\n  p2: [{task: t1}]\n  p1: [{pipeline: p2}, {pipeline: p2}]\n"
	text["dup-stage/pipeline-then-task-named-alike"] = "tasks: {t1: {command: [\"true\"]}}\npipelines:\n  p2: [{task: t1}]\n  p1: [{pipeline: p2}, {name: p2, task: t1}]\n"
	text["dup-stage/explicit-name-first-is-pipeline"] = "tasks: {t1: {command: [\"true\"]}}\npipelines:\n  p2: [{task: t1}]\n  p1: [{name: x, pipeline: p2}, {name: x, task: t1}]\n"
	text["dup-stage/task-then-pipeline"] = "tasks: {t1: {command: [\"true\"]}}\npipelines:\n  p2: [{task: t1}]\n  p1: [{name: x, task: t1}, {name: x, pipeline: p2}]\n"
	// directory imports that lead back to a file that is being loaded (also reached through a symlink, below)
	text["import-own-directory"] = "import: [\".\"]\ntasks: {t1: {command: [\"true\"]}}\n"
	text["import-directory-whose-file-imports-it"] = "import: [\"inc\"]\ntasks: {t1: {command: [\"true\"]}}\n"
	// line breaks other than LF (yaml.v2 counts CR, NEL, LS and PS as breaks too) in files that are syntactically
	// wrong further down: error positions then lie beyond the number of LF-separated lines
	brk := map[string]string{"cr": "\r", "nel": "\u0085", "ls": "\u2028", "ps": "\u2029"}
	bad := map[string]string{"open-flow": "x: [1, 2", "bare-word-at-eof": "dangling", "bad-indent": "  a: 1\n b: 2\n   c: 3", "tab": "\tk: v", "unclosed-quote": "q: \"never closed", "colon-soup": "a: b: c: d"}
	lrnd := c.Rand("c15-linebreaks")
	for bn, b := range brk {
		for en, e := range bad {
			// every newline replaced; the error last
			text["breaks/"+bn+"-all/"+en] = strings.ReplaceAll(y, "\n", b) + b + e
			// comment lines separated by the break in front of a normal document, the error last, no final newline
			text["breaks/"+bn+"-comments/"+en] = strings.Repeat("# c"+b, 3+lrnd.Intn(40)) + "\n" + y + e
			// breaks inside a quoted scalar
			text["breaks/"+bn+"-in-scalar/"+en] = "tasks:\n  t1:\n    command: [\"a" + strings.Repeat(b, 1+lrnd.Intn(9)) + "b\"]\n" + e
		}
	}
	for k := 0; k < c.N(60, 1500); k++ {
		// seeded: some newlines of the base document replaced by other breaks, cut somewhere, an error appended
		var sb strings.Builder
		bs := []string{"\r", "\u0085", "\u2028", "\u2029", "\r\n"}
		cut := lrnd.Intn(len(y))
		for i := 0; i < cut; i++ {
			if y[i] == '\n' && lrnd.Chance(40) {
				sb.WriteString(bs[lrnd.Intn(len(bs))])
			} else {
				sb.WriteByte(y[i])
			}
		}
		var es []string
		for _, e := range bad {
			es = append(es, e)
		}
		sort.Strings(es)
		sb.WriteString(es[lrnd.Intn(len(es))])
		text[fmt.Sprintf("breaks/seeded-%d", k)] = sb.String()
	}
	// mapping keys that are not strings, at every depth (a file with imports is converted key by key before it is merged)
	text["non-string-keys-nested"] = "tasks:\n  t1:\n    command: [\"true\"]\n    env: {~: a, 1.5: b, 2: c, true: d, 2001-01-01: e, .inf: f, 0x10: g}\n    variables: {~: a, 1.5: b, -0.0: c}\n"
	text["non-string-keys-top"] = "~: x\n1.5: y\n7: z\ntrue: w\ntasks: {t1: {command: [\"true\"]}}\n"
	text["non-string-keys-contexts"] = "contexts:\n  ~: {executable: {bin: /bin/sh, args: [\"-c\"]}}\n  1.5: {env: {1.5: x, ~: y}}\ntasks: {t1: {command: [\"true\"]}}\npipelines:\n  1.5: [{task: t1}]\n  ~: [{task: t1}]\n"
	// every hand-written shape once more behind an import list: a file that imports goes through the raw-map merge
	// (key conversion, section-wise merging) before it is decoded, a file without imports does not
	for k, v := range text {
		if strings.HasPrefix(k, "breaks/") || strings.HasPrefix(k, "import-") || strings.HasPrefix(v, "import:") || strings.Contains(v, "\nimport:") {
			continue
		}
		text["behind-import/"+k] = "import: [\"inc/extra.yaml\"]\n" + v
	}
	for k, v := range text {
		cases = append(cases, fileCase{name: "text:" + k, ext: ".yaml", content: v})
	}
	jsonText := map[string]string{
		"json-array-root": "[1,2]", "json-string-root": "\"x\"", "json-null-root": "null", "json-number-root": "3",
		"json-trailing": "{\"tasks\":{}} trailing", "json-dup": "{\"tasks\":{\"a\":{\"command\":[\"true\"]},\"a\":null}}",
		"json-deep":     strings.Repeat("{\"tasks\":", 200) + "1" + strings.Repeat("}", 200),
		"json-bignum":   "{\"tasks\":{\"t1\":{\"command\":[\"true\"],\"timeout\":1e400}}}",
		"json-import-1": "{\"import\": \"x.yaml\"}", "json-import-2": "{\"import\": [3]}",
		"json-names-invalid-utf8-with-description": "{\"tasks\": {\"\xff\xfe\xfd\xfc\xfb\xfa\": {\"command\": [\"true\"], \"description\": \"bytes\"}, \"t1\": {\"command\": [\"true\"], \"description\": \"x\"}}}",
	}
	for k, v := range jsonText {
		cases = append(cases, fileCase{name: "text:" + k, ext: ".json", content: v})
	}
	tomlText := map[string]string{
		"toml-import-scalar": "import = \"x.yaml\"\n", "toml-import-ints": "import = [1,2]\n",
		"toml-dup-table": "[tasks.t1]\ncommand=[\"true\"]\n[tasks.t1]\ncommand=[\"true\"]\n",
		"toml-bad":       "[tasks\n", "toml-date": "[tasks.t1]\ncommand=[\"true\"]\ntimeout = 1979-05-27T07:32:00Z\n",
		"toml-array-table-mismatch": "[[tasks]]\nname=\"x\"\n", "toml-inline": "tasks = {t1 = {command = [\"true\"]}}\n",
	}
	for k, v := range tomlText {
		cases = append(cases, fileCase{name: "text:" + k, ext: ".toml", content: v})
	}
	// env_file shapes (the task's env_file is read while loading)
	envs := map[string]string{
		"blank-line": "A=1\n\nB=2\n", "no-equals": "JUSTAKEY\n", "several-equals": "A=b=c=d\n", "empty-key": "=v\n", "empty-value": "K=\n",
		"comment": "# comment\nA=1\n", "no-trailing-newline": "A=1", "binary": "\x00\x01\x02\xff\xfe=\x00\n", "crlf": "A=1\r\nB=2\r\n",
		"only-newlines": "\n\n\n", "empty": "", "spaces": "  A = 1  \n", "export": "export A=1\n", "quotes": "A=\"quoted value\"\n", "long-line": "A=" + strings.Repeat("y", 100000) + "\n",
		"very-long-line": "A=" + strings.Repeat("y", 200000) + "\n",
	}
	ef := "tasks:\n  t1:\n    command: [\"true\"]\n    env_file: \"custom.env\"\n"
	for k, v := range envs {
		cases = append(cases, fileCase{name: "env_file:" + k, ext: ".yaml", content: ef, aux: map[string]string{"custom.env": v}})
	}
	for k, v := range map[string]string{"lone-double-quote": "A=\"\n", "lone-single-quote": "A='\n", "empty-quotes": "A=\"\"\n", "unbalanced-quote": "A=\"x\n", "quote-only-key": "=\"\n", "quoted-space": "A=\" \"\n", "pem-opening": "CERT=\"\n-----BEGIN-----\nabc\n\"\n", "single-char": "A=x\n", "equals-only": "=\n", "many-equals": "====\n"} {
		cases = append(cases, fileCase{name: "env_file:" + k, ext: ".yaml", content: ef, aux: map[string]string{"custom.env": v}})
	}
	// imports that mix formats, in every order; the imported files share top-level sections with the importer
	impY := "tasks:\n  from-yaml:\n    command: [\"true\"]\n    env: {A: \"1\"}\npipelines:\n  py: [{task: from-yaml}]\n"
	impJ := "{\"tasks\": {\"from-json\": {\"command\": [\"true\"], \"env\": {\"A\": \"1\"}}}, \"pipelines\": {\"pj\": [{\"task\": \"from-json\"}]}}\n"
	impT := "[tasks.from-toml]\ncommand = [\"true\"]\n[tasks.from-toml.env]\nA = \"1\"\n[[pipelines.pt]]\ntask = \"from-toml\"\n"
	mixAux := map[string]string{"m/b.yaml": impY, "m/c.json": impJ, "m/d.toml": impT, "m/dir/e.yaml": strings.ReplaceAll(impY, "from-yaml", "from-dir"), "m/chain.yaml": "import: [\"c.json\"]\ntasks:\n  chain: {command: [\"true\"]}\n",
		"m/dir2/a.yaml": "import: [\"../b.yaml\"]\ntasks:\n  d2a: {command: [\"true\"]}\n", "m/dir2/z.yaml": "tasks:\n  d2z: {command: [\"true\"]}\npipelines:\n  pz: [{task: d2z}]\n"}
	orders := [][]string{{"m/c.json", "m/b.yaml"}, {"m/b.yaml", "m/c.json"}, {"m/d.toml", "m/b.yaml"}, {"m/b.yaml", "m/d.toml"}, {"m/c.json", "m/d.toml", "m/b.yaml"}, {"m/c.json", "m/dir"}, {"m/dir", "m/c.json", "m/b.yaml"}, {"m/chain.yaml", "m/b.yaml"}, {"m/d.toml", "m/chain.yaml", "m/dir"}, {"m/c.json", "m/c.json", "m/b.yaml"}, {"m/dir2"}, {"m/dir2", "m/c.json"}, {"m/d.toml", "m/dir2", "m/dir"}}
	for oi, ord := range orders {
		var l []interface{}
		for _, x := range ord {
			l = append(l, x)
		}
		root := gen.OM{{K: "import", V: l}, {K: "tasks", V: gen.OM{{K: "own", V: gen.OM{{K: "command", V: []interface{}{"true"}}, {K: "env", V: gen.OM{{K: "A", V: "1"}}}}}}}}
		for _, fc := range emitAll(root, fmt.Sprintf("mixed-format-imports#%d:%s", oi, strings.Join(ord, ","))) {
			fc.aux = mixAux
			cases = append(cases, fc)
		}
	}
	// inclusion loops that are entered from an outside pipeline
	for k, v := range map[string]string{
		"entry-into-loop":     "tasks: {t: {command: [\"true\"]}}\npipelines:\n  entry: [{pipeline: inner}]\n  inner: [{pipeline: leaf}]\n  leaf: [{pipeline: inner}]\n",
		"entry-into-selfloop": "tasks: {t: {command: [\"true\"]}}\npipelines:\n  a: [{pipeline: b}]\n  b: [{task: t}, {name: again, pipeline: b}]\n  c: [{pipeline: a}]\n  d: [{pipeline: c}]\n",
		"two-entries":         "tasks: {t: {command: [\"true\"]}}\npipelines:\n  e1: [{pipeline: x}]\n  e2: [{pipeline: y}]\n  x: [{pipeline: y}]\n  y: [{pipeline: x}]\n",
	} {
		cases = append(cases, fileCase{name: "text:inclusion-" + k, ext: ".yaml", content: v})
	}
	cases = append(cases, fileCase{name: "env_file:missing", ext: ".yaml", content: ef})
	// an imported directory in which several files are broken at once, in every combination of kinds
	brokenKinds := map[string]string{"syntax": "tasks: [unclosed\n  - {\n", "syntax2": "x: \"never closed\n", "missing-import": "import: [\"gone.yaml\"]\n", "scalar-import": "import: 7\n", "tabs": "\tk: v\n"}
	bk := []string{"syntax", "syntax2", "missing-import", "scalar-import", "tabs"}
	for i := range bk {
		for j := range bk {
			aux := map[string]string{"many/a-" + bk[i] + ".yaml": brokenKinds[bk[i]], "many/b-ok.yaml": "tasks: {okt: {command: [\"true\"]}}\n", "many/c-" + bk[j] + ".yaml": brokenKinds[bk[j]], "many/d-" + bk[(i+j)%5] + ".yaml": brokenKinds[bk[(i+j)%5]]}
			cases = append(cases, fileCase{name: "import-directory-with-several-broken-files/" + bk[i] + "+" + bk[j], ext: ".yaml", content: "import: [\"many\"]\ntasks: {t1: {command: [\"true\"]}}\n", aux: aux})
		}
	}
	// stages that include a pipeline and carry every kind of stage key (what `validate`, `graph`, `show` walk over)
	cases = append(cases, fileCase{name: "including-stage-with-all-stage-keys", ext: ".yaml", content: "tasks: {t1: {command: [\"true\"]}}\npipelines:\n  p2: [{task: t1}]\n  p1:\n    - {name: inc, pipeline: p2, variables: {A: b, N: 3}, env: {E: \"1\"}, dir: \".\", condition: \"true\", allow_failure: true}\n    - {task: t1, depends_on: [inc], variables: {Unused: x}}\n"})
	cases = append(cases, fileCase{name: "including-stage-with-all-stage-keys", ext: ".json", content: "{\"tasks\": {\"t1\": {\"command\": [\"true\"]}}, \"pipelines\": {\"p2\": [{\"task\": \"t1\"}], \"p1\": [{\"name\": \"inc\", \"pipeline\": \"p2\", \"variables\": {\"A\": \"b\"}, \"env\": {\"E\": \"1\"}}, {\"task\": \"t1\", \"depends_on\": [\"inc\"]}]}}"})
	cases = append(cases, fileCase{name: "env_file:directory", ext: ".yaml", content: ef, aux: map[string]string{"custom.env/x": "1"}})
	cases = append(cases, fileCase{name: "env_file:absolute-missing", ext: ".yaml", content: strings.Replace(ef, "custom.env", "/nonexistent/dir/x.env", 1)})
	return cases
}

// layeredDag: two stages per layer, each depending on both stages of the previous layer, declared from the
// last layer to the first (acyclic; the number of paths is 2^layers).
func layeredDag(layers int) string {
	var b strings.Builder
	b.WriteString("tasks:\n  t: {command: [\"true\"]}\npipelines:\n  p:\n")
	for l := layers - 1; l >= 0; l-- {
		for k := 0; k < 2; k++ {
			fmt.Fprintf(&b, "    - {name: \"l%dk%d\", task: t", l, k)
			if l > 0 {
				fmt.Fprintf(&b, ", depends_on: [\"l%dk0\", \"l%dk1\"]", l-1, l-1)
			}
			b.WriteString("}\n")
		}
	}
	return b.String()
}

func manyTasks(n int) string {
	var b strings.Builder
	b.WriteString("tasks:\n")
	for i := 0; i < n; i++ {
		fmt.Fprintf(&b, "  t%d: {command: [\"true\"]}\n", i)
	}
	return b.String()
}

func c15(c *h.Ctx) {
	c.Level = "fault_enumeration"
	c.Rule = "fault enumeration over malformed shapes: a base configuration touching every documented key; first-order mutants = every node x 20 replacements (null, scalars of each type, blank-only strings, lists/maps of wrong element types, huge int) + deletion + unknown/empty key, each in YAML, JSON and TOML where expressible; seeded higher-order mutants; truncation at every k-th byte of all three serialisations; hand-written YAML/JSON/TOML shapes (anchors, aliases, merge keys, BOM, CRLF, NUL, invalid UTF-8, import shapes); env_file shapes. Each file: `-c F list`, `validate F`, and when it loads `show t1`, `graph p1`. Monitor: exit status in {0,1}, no panic / fatal error / goroutine dump on stderr, 10 s watchdog (re-confirmed). non-trivial = distinct file contents"
	c.Assumptions = []string{"the process boundary is the observation point: argv, files, $HOME (empty) in; exit status, stderr out", "a watchdog firing once is re-confirmed three times before it counts"}
	cases := c15cases(c)
	c.Extra("file_cases", len(cases))
	root := caseDir(c, "c15")
	defer os.RemoveAll(root)
	c15urls(c)
	h.Par(len(cases), 16, func(i int) {
		fc := cases[i]
		dir := filepath.Join(root, fmt.Sprint(i))
		os.MkdirAll(dir+"/inc", 0o755)
		defer os.RemoveAll(dir)
		h.WriteFile(dir+"/inc/extra.yaml", "tasks:\n  extra:\n    command: [\"true\"]\n")
		h.WriteFile(dir+"/inc/broken.yaml", "tasks: [unclosed\n")
		h.WriteFile(dir+"/inc/wrong.yaml", "tasks: 5\n")
		h.WriteFile(dir+"/vars.env", "A=1\nB=2\n")
		for k, v := range fc.aux {
			h.WriteFile(dir+"/"+k, v)
		}
		if fc.name == "text:import-directory-whose-file-imports-it" {
			os.Remove(dir + "/inc/broken.yaml")
			os.Remove(dir + "/inc/wrong.yaml")
			h.WriteFile(dir+"/inc/back.yaml", "import: [\"../inc\", \"..\"]\ntasks: {back: {command: [\"true\"]}}\n")
		}
		f := dir + "/f" + fc.ext
		h.WriteFile(f, fc.content)
		// `validate` runs without -c: keep the default-config discovery from walking up into foreign directories
		h.WriteFile(dir+"/taskctl.yaml", "{}\n")
		c.Nontrivial(fc.ext + fc.content + fmt.Sprint(fc.aux))
		run := func(args ...string) h.ProcResult {
			res := tc{Dir: dir, Timeout: 10 * time.Second}.run(c, args...)
			c.Eval(1)
			cas := map[string]interface{}{"mutation": fc.name, "format": fc.ext, "argv": args, "file": clip(fc.content, 1500), "aux": fc.aux, "exit": res.Exit, "stderr": tail(string(res.Stderr), 3000)}
			if res.TimedOut {
				again := 0
				for k := 0; k < 3; k++ {
					if (tc{Dir: dir, Timeout: 10 * time.Second}).run(c, args...).TimedOut {
						again++
					}
				}
				if again == 3 {
					c.Violate("hang/"+fc.name, fmt.Sprintf("taskctl %s did not finish within 10 s (four times) on %s", args[len(args)-1], fc.name), cas)
				} else {
					c.Inconclusive("watchdog fired once for " + fc.name)
				}
				return res
			}
			if crashed, how := res.Crashed(); crashed || strings.Contains(string(res.Stderr), "\ngoroutine ") {
				sig := "crash/" + h.TopFrame(string(res.Stderr))
				c.Violate(sig, fmt.Sprintf("%s while loading [%s] (%s, command %s): %s", how, fc.name, fc.ext, args[len(args)-1], firstPanicLine(string(res.Stderr))), cas)
			}
			return res
		}
		res := run("-c", f, "list")
		run("validate", f)
		if res.Exit == 0 && !res.TimedOut {
			c.Count("files_that_load", 1)
			run("-c", f, "show", "t1")
			run("-c", f, "graph", "p1")
			run("-c", f, "list", "tasks")
		} else {
			c.Count("files_rejected", 1)
		}
		if strings.Contains(fc.name, "import") {
			// the same file reached through a symbolic link to its directory (lexical and resolved names differ)
			link := dir + ".lnk"
			if os.Symlink(dir, link) == nil {
				run("-c", link+"/f"+fc.ext, "list")
				c.Count("files_loaded_through_a_symlink", 1)
				os.Remove(link)
			}
		}
		if fc.ext == ".yaml" && (strings.Contains(fc.name, "import") || i%7 == 0) {
			// the same file found by default-configuration discovery (no -c): a different path through the CLI
			os.Remove(dir + "/taskctl.yaml")
			h.WriteFile(dir+"/tasks.yaml", fc.content)
			run("list")
			run("show", "t1")
		}
		if i%997 == 0 {
			c.Sample(map[string]interface{}{"mutation": fc.name, "format": fc.ext, "exit": res.Exit, "stderr": clip(stripANSI(string(res.Stderr)), 200)})
		}
	})
}

// c15urls: configurations fetched from a loop-back HTTP server, with import entries of every shape.
func c15urls(c *h.Ctx) {
	ln, err := net.Listen("tcp", "127.0.0.1:0")
	if err != nil {
		c.Count("no_loopback_listener", 1)
		return
	}
	defer ln.Close()
	bodies := map[string]string{
		"/ok.yaml":      "tasks: {u: {command: [\"true\"]}}\n",
		"/rel.yaml":     "import: [\"ok.yaml\"]\ntasks: {r: {command: [\"true\"]}}\n",
		"/percent.yaml": "import: [\"100%.yaml\"]\n", "/colon.yaml": "import: [\":more.yaml\"]\n", "/tab.yaml": "import: [\"a\\tb.yaml\"]\n",
		"/space.yaml": "import: [\"a b.yaml\", \"%zz\"]\n", "/abs.yaml": "import: [\"/etc/hostname\"]\n", "/url.yaml": "import: [\"http://127.0.0.1:1/none.yaml\"]\n",
		"/self.yaml": "import: [\"self.yaml\"]\ntasks: {s: {command: [\"true\"]}}\n", "/dir.yaml": "import: [\".\", \"..\", \"\"]\n",
		"/badjson.json": "{\"import\": [\"x\", 1]", "/empty.yaml": "", "/notfound-import.yaml": "import: [\"nope/none.yaml\"]\n",
	}
	// the same small document under Content-Type headers of every shape a server may send
	ctypes := []string{"yaml", "text", ";charset=utf-8", "text/ plain", "/", "application/", "/json", "a/b/c", "application/json;;", "text/plain; charset", "\x00", "application/x-yaml, text/plain", strings.Repeat("x", 5000) + "/y"}
	for k := range ctypes {
		bodies[fmt.Sprintf("/ctype%d.yaml", k)] = "tasks: {u: {command: [\"true\"]}}\n"
	}
	go http.Serve(ln, http.HandlerFunc(func(w http.ResponseWriter, r *http.Request) {
		if b, ok := bodies[r.URL.Path]; ok {
			var k int
			if n, _ := fmt.Sscanf(r.URL.Path, "/ctype%d.yaml", &k); n == 1 && k < len(ctypes) {
				w.Header()["Content-Type"] = []string{ctypes[k]}
			}
			w.Write([]byte(b))
			return
		}
		http.NotFound(w, r)
	}))
	base := "http://" + ln.Addr().String()
	dir := caseDir(c, "c15url")
	defer os.RemoveAll(dir)
	var paths []string
	for p := range bodies {
		paths = append(paths, p)
	}
	paths = append(paths, "/missing.yaml")
	h.Par(len(paths), 8, func(i int) {
		for _, args := range [][]string{{"list"}, {"show", "u"}} {
			res := tc{Dir: dir, Timeout: 15 * time.Second}.run(c, append([]string{"-c", base + paths[i]}, args...)...)
			c.Eval(1)
			c.Count("url_configurations", 1)
			cas := map[string]interface{}{"url_path": paths[i], "body": bodies[paths[i]], "argv": args, "exit": res.Exit, "stderr": tail(string(res.Stderr), 3000)}
			if crashed, how := res.Crashed(); crashed {
				c.Violate("crash/"+h.TopFrame(string(res.Stderr)), fmt.Sprintf("%s while loading a configuration from a URL (%s): %s", how, paths[i], firstPanicLine(string(res.Stderr))), cas)
			}
			if res.TimedOut {
				c.Inconclusive("URL configuration " + paths[i] + " exceeded 15 s")
			}
		}
		c.Nontrivial("url" + paths[i])
	})
}

func clip(s string, n int) string {
	if len(s) > n {
		return s[:n] + "…"
	}
	return s
}

func firstPanicLine(s string) string {
	for _, ln := range strings.Split(s, "\n") {
		if strings.HasPrefix(ln, "panic: ") || strings.HasPrefix(ln, "fatal error: ") {
			return ln
		}
	}
	return ""
}

func init() { checks["C15"] = checkDef{"fault_enumeration", c15} }
