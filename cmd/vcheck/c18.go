package main

import (
	"fmt"
	"os"
	"path/filepath"
	"strings"
	"time"

	"verif/internal/gen"
	"verif/internal/h"
)

type c18stage struct {
	Name, Task, Pipeline string
	Deps                 []string
	Unnamed              bool // no `name:` in the file; the stage is called after its task / pipeline
	Cond                 string
}
type c18cfg struct {
	Tasks     []string
	Pipelines map[string][]c18stage
	Order     []string
	Watchers  map[string]string // watcher -> task
}

func (g c18cfg) clone() c18cfg {
	n := c18cfg{Tasks: append([]string{}, g.Tasks...), Pipelines: map[string][]c18stage{}, Order: append([]string{}, g.Order...), Watchers: map[string]string{}}
	for k, v := range g.Pipelines {
		for _, s := range v {
			s.Deps = append([]string{}, s.Deps...)
			n.Pipelines[k] = append(n.Pipelines[k], s)
		}
	}
	for k, v := range g.Watchers {
		n.Watchers[k] = v
	}
	return n
}

func (g c18cfg) yaml() string {
	tasks := gen.OM{}
	for _, t := range g.Tasks {
		tasks.Set(t, gen.OM{{K: "command", V: []interface{}{"echo " + t}}})
	}
	pipes := gen.OM{}
	for _, p := range g.Order {
		var st []interface{}
		for _, s := range g.Pipelines[p] {
			o := gen.OM{}
			if !s.Unnamed {
				o.Set("name", s.Name)
			}
			if s.Task != "" {
				o.Set("task", s.Task)
			}
			if s.Pipeline != "" {
				o.Set("pipeline", s.Pipeline)
			}
			if s.Cond != "" {
				o.Set("condition", s.Cond)
			}
			if len(s.Deps) > 0 {
				var d []interface{}
				for _, x := range s.Deps {
					if x == "\x00null" {
						d = append(d, nil) // a null entry (a trailing `-` in YAML)
					} else {
						d = append(d, x)
					}
				}
				o.Set("depends_on", d)
			}
			st = append(st, o)
		}
		pipes.Set(p, st)
	}
	cfg := gen.OM{{K: "tasks", V: tasks}, {K: "pipelines", V: pipes}}
	if len(g.Watchers) > 0 {
		ws := gen.OM{}
		for _, w := range sortedKeys(g.Watchers) {
			switch {
			case strings.HasPrefix(w, "nopat"):
				// a watcher without patterns watches nothing; what it refers to is checked all the same
				ws.Set(w, gen.OM{{K: "events", V: []interface{}{"write"}}, {K: "task", V: g.Watchers[w]}})
			case strings.HasPrefix(w, "emptypat"):
				ws.Set(w, gen.OM{{K: "watch", V: []interface{}{}}, {K: "exclude", V: []interface{}{"*.tmp"}}, {K: "task", V: g.Watchers[w]}})
			default:
				ws.Set(w, gen.OM{{K: "watch", V: []interface{}{"*.none"}}, {K: "task", V: g.Watchers[w]}})
			}
		}
		cfg.Set("watchers", ws)
	}
	return gen.YAML(cfg)
}

func genC18(r *h.Rand) c18cfg {
	g := c18cfg{Pipelines: map[string][]c18stage{}, Watchers: map[string]string{}}
	for i := 0; i < r.Range(2, 5); i++ {
		g.Tasks = append(g.Tasks, fmt.Sprintf("t%d", i))
	}
	np := r.Range(1, 3)
	for p := 0; p < np; p++ {
		name := fmt.Sprintf("p%d", p)
		g.Order = append(g.Order, name)
		ns := r.Range(2, 5)
		for k := 0; k < ns; k++ {
			s := c18stage{Name: fmt.Sprintf("s%d", k)}
			if p > 0 && r.Chance(30) {
				s.Pipeline = fmt.Sprintf("p%d", r.Intn(p))
			} else {
				s.Task = g.Tasks[r.Intn(len(g.Tasks))]
			}
			for j := 0; j < k; j++ {
				if r.Chance(40) {
					s.Deps = append(s.Deps, fmt.Sprintf("s%d", j))
				}
			}
			g.Pipelines[name] = append(g.Pipelines[name], s)
		}
		// some stages carry no explicit name (allowed when the derived name is unique and nothing depends on the old name)
		used := map[string]bool{}
		for _, s := range g.Pipelines[name] {
			used[s.Name] = true
			for _, d := range s.Deps {
				used["dep:"+d] = true
			}
		}
		for k := range g.Pipelines[name] {
			s := &g.Pipelines[name][k]
			derived := s.Task
			if derived == "" {
				derived = s.Pipeline
			}
			if r.Chance(30) && !used[derived] && !used["dep:"+s.Name] {
				delete(used, s.Name)
				s.Name, s.Unnamed = derived, true
				used[derived] = true
			}
		}
	}
	r.Shuffle(g.Order) // declaration order of pipelines is arbitrary (links may point forward)
	for i := 0; i < r.Intn(3); i++ {
		g.Watchers[fmt.Sprintf("w%d", i)] = g.Tasks[r.Intn(len(g.Tasks))]
	}
	if r.Chance(25) {
		// a watcher without patterns that names an existing task is well-formed
		g.Watchers[[]string{"nopat9", "emptypat9"}[r.Intn(2)]] = g.Tasks[0]
	}
	return g
}

type c18mut struct {
	kind string
	cfg  c18cfg
	desc string
}

// mutants: exactly one broken reference of each kind at every position.
func c18mutants(g c18cfg) []c18mut {
	var ms []c18mut
	for _, p := range g.Order {
		for i, s := range g.Pipelines[p] {
			if s.Task != "" {
				m := g.clone()
				m.Pipelines[p][i].Task = "ghost-task"
				ms = append(ms, c18mut{"stage-task", m, fmt.Sprintf("%s[%d].task", p, i)})
			}
			if s.Pipeline != "" {
				m := g.clone()
				m.Pipelines[p][i].Pipeline = "ghost-pipeline"
				ms = append(ms, c18mut{"stage-pipeline", m, fmt.Sprintf("%s[%d].pipeline", p, i)})
			}
			if !s.Unnamed {
				// a named stage that refers to nothing at all (the task/pipeline line is missing)
				m := g.clone()
				m.Pipelines[p][i].Task, m.Pipelines[p][i].Pipeline = "", ""
				ms = append(ms, c18mut{"stage-task", m, fmt.Sprintf("%s[%d] names neither a task nor a pipeline", p, i)})
			}
			m := g.clone()
			m.Pipelines[p][i].Deps = append(m.Pipelines[p][i].Deps, "ghost-stage")
			ms = append(ms, c18mut{"depends_on", m, fmt.Sprintf("%s[%d].depends_on+=ghost-stage", p, i)})
			// an entry that names nothing: empty, blank, null - no stage has such a name
			for bi, blank := range []string{"", " ", "\x00null"} {
				if (i+bi)%3 != 0 {
					continue
				}
				m := g.clone()
				m.Pipelines[p][i].Deps = append(m.Pipelines[p][i].Deps, blank)
				ms = append(ms, c18mut{"depends_on", m, fmt.Sprintf("%s[%d].depends_on+=%q", p, i, blank)})
			}
			if len(s.Deps) > 0 {
				m := g.clone()
				m.Pipelines[p][i].Deps[0] = "ghost-stage"
				ms = append(ms, c18mut{"depends_on", m, fmt.Sprintf("%s[%d].depends_on[0]=ghost-stage", p, i)})
			}
			// a name that exists, but in another pipeline only
			for _, q := range g.Order {
				if q == p || len(g.Pipelines[q]) <= len(g.Pipelines[p]) {
					continue
				}
				other := g.Pipelines[q][len(g.Pipelines[q])-1].Name
				own := false
				for _, x := range g.Pipelines[p] {
					if x.Name == other {
						own = true // p has a stage of that name itself (e.g. an unnamed stage of the same task): not a broken reference
					}
				}
				if own {
					continue
				}
				m := g.clone()
				m.Pipelines[p][i].Deps = append(m.Pipelines[p][i].Deps, other)
				ms = append(ms, c18mut{"depends_on", m, fmt.Sprintf("%s[%d].depends_on+=%s(of %s)", p, i, other, q)})
				break
			}
			if i > 0 {
				m := g.clone()
				m.Pipelines[p][i].Name = m.Pipelines[p][0].Name
				m.Pipelines[p][i].Unnamed = false
				m.Pipelines[p][i].Deps = nil
				ms = append(ms, c18mut{"duplicate-stage", m, fmt.Sprintf("%s[%d].name=%s", p, i, m.Pipelines[p][0].Name)})
			}
			// inclusion cycles of length 1: this stage includes its own pipeline
			mm := g.clone()
			mm.Pipelines[p][i].Task, mm.Pipelines[p][i].Pipeline = "", p
			ms = append(ms, c18mut{"inclusion-cycle-1", mm, fmt.Sprintf("%s[%d].pipeline=%s", p, i, p)})
		}
	}
	for w := range g.Watchers {
		m := g.clone()
		m.Watchers[w] = "ghost-task"
		ms = append(ms, c18mut{"watcher-task", m, w + ".task"})
	}
	{
		// several well-formed watchers and one whose task does not exist
		m := g.clone()
		for k := 0; k < 5; k++ {
			m.Watchers[fmt.Sprintf("extra%d", k)] = g.Tasks[k%len(g.Tasks)]
		}
		m.Watchers["extra2"] = "ghost-task"
		ms = append(ms, c18mut{"watcher-task", m, "extra2.task among five more watchers"})
	}
	for _, shape := range []string{"nopat", "emptypat"} {
		m := g.clone()
		m.Watchers[shape+"0"] = "ghost-task"
		ms = append(ms, c18mut{"watcher-task", m, shape + "0.task (a watcher without patterns)"})
	}
	{
		// no task is defined at all (the tasks live in a file that was not imported): every task reference dangles
		m := g.clone()
		m.Tasks = nil
		ms = append(ms, c18mut{"stage-task", m, "the configuration defines no tasks at all"})
	}
	// duplicate names that arise from derived names: two unnamed stages of the same task / pipeline,
	// and an explicit name equal to a later unnamed stage's task
	for _, p := range g.Order {
		st := g.Pipelines[p]
		if len(st) < 2 {
			continue
		}
		for i := 1; i < len(st); i++ {
			if st[i].Task == "" {
				continue
			}
			m := g.clone()
			m.Pipelines[p][0] = c18stage{Name: st[i].Task, Task: st[i].Task, Unnamed: true}
			m.Pipelines[p][i] = c18stage{Name: st[i].Task, Task: st[i].Task, Unnamed: true}
			for k := range m.Pipelines[p] {
				m.Pipelines[p][k].Deps = nil
			}
			ms = append(ms, c18mut{"duplicate-stage", m, fmt.Sprintf("%s[0] and %s[%d] both unnamed stages of task %s", p, p, i, st[i].Task)})
			m2 := g.clone()
			m2.Pipelines[p][0] = c18stage{Name: st[i].Task, Task: g.Tasks[0]}
			m2.Pipelines[p][i] = c18stage{Name: st[i].Task, Task: st[i].Task, Unnamed: true}
			for k := range m2.Pipelines[p] {
				m2.Pipelines[p][k].Deps = nil
			}
			ms = append(ms, c18mut{"duplicate-stage", m2, fmt.Sprintf("%s[0] named %s explicitly, %s[%d] unnamed stage of task %s", p, st[i].Task, p, i, st[i].Task)})
			break
		}
	}
	// inclusion loops that an outside pipeline leads into
	for L := 1; L <= 2; L++ {
		m := g.clone()
		for k := 0; k < L; k++ {
			name := fmt.Sprintf("loop%d", k)
			m.Order = append(m.Order, name)
			m.Pipelines[name] = []c18stage{{Name: "a", Task: g.Tasks[0]}, {Name: "b", Pipeline: fmt.Sprintf("loop%d", (k+1)%L), Deps: []string{"a"}}}
		}
		m.Order = append(m.Order, "entry", "entry2")
		m.Pipelines["entry"] = []c18stage{{Name: "x", Pipeline: "loop0"}}
		m.Pipelines["entry2"] = []c18stage{{Name: "y", Pipeline: "entry"}}
		ms = append(ms, c18mut{fmt.Sprintf("inclusion-cycle-%d", L), m, fmt.Sprintf("entry2->entry->loop0..loop%d->loop0", L-1)})
	}
	// cycles of length 2 and 3 over fresh pipelines
	for L := 2; L <= 3; L++ {
		m := g.clone()
		for k := 0; k < L; k++ {
			name := fmt.Sprintf("cyc%d", k)
			m.Order = append(m.Order, name)
			m.Pipelines[name] = []c18stage{{Name: "a", Task: g.Tasks[0]}, {Name: "b", Pipeline: fmt.Sprintf("cyc%d", (k+1)%L), Deps: []string{"a"}}}
		}
		ms = append(ms, c18mut{fmt.Sprintf("inclusion-cycle-%d", L), m, fmt.Sprintf("cyc0->...->cyc%d->cyc0", L-1)})
	}
	// the same cycles where the including stages carry a stage-level condition (a cycle is a cycle whatever the
	// condition will say at run time)
	for L := 1; L <= 3; L++ {
		m := g.clone()
		for k := 0; k < L; k++ {
			name := fmt.Sprintf("ccyc%d", k)
			m.Order = append(m.Order, name)
			cond := "true"
			if k == L-1 {
				cond = "test -e /nonexistent-marker"
			}
			m.Pipelines[name] = []c18stage{{Name: "a", Task: g.Tasks[0]}, {Name: "b", Pipeline: fmt.Sprintf("ccyc%d", (k+1)%L), Deps: []string{"a"}, Cond: cond}}
		}
		ms = append(ms, c18mut{fmt.Sprintf("inclusion-cycle-%d", L), m, fmt.Sprintf("conditional including stages: ccyc0->...->ccyc%d->ccyc0", L-1)})
	}
	// depends_on naming the TASK (or included pipeline) of a stage that has another, explicit name
	for _, p := range g.Order {
		st := g.Pipelines[p]
		names := map[string]bool{}
		for _, x := range st {
			names[x.Name] = true
		}
		done := false
		for j, x := range st {
			target := x.Task
			if target == "" {
				target = x.Pipeline
			}
			if x.Unnamed || target == x.Name || names[target] || done {
				continue
			}
			for i := range st {
				if i == j {
					continue
				}
				m := g.clone()
				m.Pipelines[p][i].Deps = append(m.Pipelines[p][i].Deps, target)
				ms = append(ms, c18mut{"depends_on", m, fmt.Sprintf("%s[%d].depends_on+=%s (what the stage named %s runs, not a stage name)", p, i, target, x.Name)})
				done = true
				break
			}
		}
	}
	return ms
}

func c18(c *h.Ctx) {
	c.Rule = "generated well-formed configurations (2..5 tasks, 1..3 pipelines of 2..5 stages, nested pipelines, 0..2 watchers, pipelines declared in arbitrary order); mutants with exactly one broken reference of each kind (stage->task, stage->pipeline, depends_on->missing stage / stage of another pipeline, watcher->task incl. watchers without patterns, duplicate stage name, inclusion cycle of length 1..3) at every position, and the repaired twin (the original). Oracle: the twin is accepted by `list` and `validate`, every mutant is rejected by both; every pipeline of every accepted configuration is run and must end with exit 0/1 within 15 s without dying inside the scheduler. non-trivial = distinct mutant / twin files"
	c.Assumptions = []string{"`validate` accepts iff it prints `file is valid`", "bounded progress (15 s, re-confirmed) stands in for 'never hangs'"}
	n := c.N(25, 500)
	type job struct {
		cfg    c18cfg
		kind   string
		desc   string
		broken bool
	}
	var jobs []job
	for i := 0; i < n; i++ {
		g := genC18(h.NewRand(c.Seed*7+int64(i), "c18"))
		jobs = append(jobs, job{g, "twin", "well-formed", false})
		for _, m := range c18mutants(g) {
			jobs = append(jobs, job{m.cfg, m.kind, m.desc, true})
		}
	}
	c.Extra("configurations", len(jobs))
	root := caseDir(c, "c18")
	defer os.RemoveAll(root)
	h.Par(len(jobs), 16, func(i int) {
		j := jobs[i]
		dir := filepath.Join(root, fmt.Sprint(i))
		os.MkdirAll(dir, 0o755)
		defer os.RemoveAll(dir)
		y := j.cfg.yaml()
		if i%3 == 1 {
			// the same configuration with an import of an unrelated file (references are checked on the merged result)
			y = "import: [\"unrelated.yaml\"]\n" + y
			h.WriteFile(dir+"/unrelated.yaml", "tasks:\n  unrelated-task:\n    command: [\"true\"]\npipelines:\n  unrelated-pipeline:\n    - task: unrelated-task\n")
		}
		f := dir + "/cfg.yaml"
		h.WriteFile(f, y)
		// `validate` runs without -c: keep the default-config discovery from walking up into foreign directories
		h.WriteFile(dir+"/taskctl.yaml", "{}\n")
		c.Nontrivial(y)
		cas := map[string]interface{}{"kind": j.kind, "broken_reference": j.desc, "yaml": y}
		res := tc{Dir: dir, Timeout: 15 * time.Second}.run(c, "-c", f, "list")
		val := tc{Dir: dir, Timeout: 15 * time.Second}.run(c, "validate", f)
		c.Eval(2)
		if res.TimedOut || val.TimedOut {
			again := 0
			for k := 0; k < 3; k++ {
				if (tc{Dir: dir, Timeout: 15 * time.Second}).run(c, "-c", f, "list").TimedOut {
					again++
				}
			}
			if again == 3 {
				c.Violate("load-does-not-terminate/"+j.kind, fmt.Sprintf("loading a configuration (%s: %s) did not finish within 15 s (four times): neither accepted nor rejected", j.kind, j.desc), cas)
			} else {
				c.Inconclusive("watchdog fired once while loading")
			}
			return
		}
		for _, r := range []h.ProcResult{res, val} {
			if crashed, how := r.Crashed(); crashed {
				c.Violate("cli-crash/"+h.TopFrame(string(r.Stderr)), "taskctl died while loading: "+how, cas)
				return
			}
		}
		accepted := res.Exit == 0
		valid := strings.Contains(string(val.Stdout), "file is valid")
		cas["list_exit"], cas["validate"], cas["stderr"] = res.Exit, clip(string(val.Stdout), 300), clip(stripANSI(string(res.Stderr)), 300)
		if accepted != valid {
			c.Violate("list-and-validate-disagree/"+j.kind, fmt.Sprintf("list exit %d but validate says %q", res.Exit, strings.TrimSpace(string(val.Stdout))), cas)
		}
		if j.broken && (accepted || valid) {
			c.Violate("dangling-reference-accepted/"+j.kind, fmt.Sprintf("configuration with a broken reference (%s: %s) was accepted", j.kind, j.desc), cas)
		}
		if !j.broken && !accepted {
			c.Violate("well-formed-configuration-rejected", "the repaired twin was rejected: "+clip(stripANSI(string(res.Stderr)), 300), cas)
		}
		if !accepted {
			c.Count("rejected", 1)
			return
		}
		c.Count("accepted", 1)
		// consequence: running any pipeline of an accepted configuration neither aborts nor hangs
		for _, p := range j.cfg.Order {
			run := func() h.ProcResult {
				return tc{Dir: dir, Timeout: 15 * time.Second}.run(c, "-c", f, "-o", "raw", p)
			}
			r := run()
			c.Eval(1)
			c.Count("pipeline_runs", 1)
			cas2 := map[string]interface{}{"kind": j.kind, "broken_reference": j.desc, "yaml": y, "pipeline": p, "exit": r.Exit, "stderr": tail(stripANSI(string(r.Stderr)), 1500)}
			if r.TimedOut {
				again, tries := 0, 3
				if j.broken {
					tries = 1 // the acceptance is already the violation; this only demonstrates the consequence
				}
				for k := 0; k < tries; k++ {
					if run().TimedOut {
						again++
					}
				}
				if again == tries {
					c.Violate("accepted-pipeline-hangs/"+j.kind, fmt.Sprintf("pipeline %s of an accepted configuration did not finish within 15 s (%d times)", p, tries+1), cas2)
				} else {
					c.Inconclusive("pipeline run exceeded the watchdog once")
				}
				if j.broken {
					break
				}
				continue
			}
			if crashed, how := r.Crashed(); crashed {
				c.Violate("accepted-pipeline-crashes/"+h.TopFrame(string(r.Stderr)), "running pipeline "+p+" died: "+how, cas2)
				continue
			}
			if strings.Contains(string(r.Stderr), "unknown task") && strings.Contains(string(r.Stderr), "level=fatal") {
				c.Violate("accepted-pipeline-aborts-in-scheduler/"+j.kind, "running pipeline "+p+" aborted the process from inside the scheduler: "+tail(stripANSI(string(r.Stderr)), 200), cas2)
			}
			if !j.broken && r.Exit != 0 {
				c.Violate("well-formed-pipeline-failed", "pipeline "+p+" of a well-formed configuration failed: "+tail(stripANSI(string(r.Stderr)), 200), cas2)
			}
		}
		if i%503 == 0 {
			c.Sample(cas)
		}
	})
}

func init() { checks["C18"] = checkDef{"exploration", c18} }
