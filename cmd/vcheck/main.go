// vcheck is the driver of every check: it generates cases, runs the taskctl
// binary / vworker children, applies the oracles and writes the evidence.
// It never links taskctl code itself.
package main

import (
	"bufio"
	"bytes"
	"encoding/json"
	"fmt"
	"os"
	"path/filepath"
	"regexp"
	"sort"
	"strings"
	"sync"
	"time"

	"verif/internal/h"
)

type checkDef struct {
	level string
	run   func(c *h.Ctx)
}

var checks = map[string]checkDef{}

var minNontrivial = map[string]int{
	"C01": 3000, "C02": 3000, "C03": 3000, "C04": 3000, "C05": 9000, "C06": 900, "C07": 130, "C08": 110, "C09": 100, "C10": 50,
	"C11": 95, "C12": 75, "C13": 16, "C14": 70, "C15": 1300, "C16": 30, "C17": 650, "C18": 250, "C19": 450, "C20": 14,
}

func main() {
	if len(os.Args) < 3 {
		fmt.Fprintln(os.Stderr, "usage: vcheck <id> <quick|thorough>")
		os.Exit(2)
	}
	id, tier := os.Args[1], os.Args[2]
	d, ok := checks[id]
	if !ok {
		fmt.Fprintln(os.Stderr, "no check for", id)
		os.Exit(2)
	}
	c := h.NewCtx(id, tier, d.level)
	// a run that observed far less than the workload is built to produce (a quarter of what the quick tier sees on
	// the unchanged tree) decides nothing: it ends as BROKEN-CHECK (exit 2), never as "held"
	if m, ok := minNontrivial[id]; ok {
		c.MinNontriv = m
	}
	if c.Work == "" || c.Bin == "" {
		fmt.Fprintln(os.Stderr, "run through ./check")
		os.Exit(2)
	}
	d.run(c)
	c.Finish()
}

// ---------------------------------------------------------------- workers

type workerOpts struct {
	Mode    string
	Race    bool
	Shards  int
	Timeout time.Duration
	Extra   []string
	Anchors []string // source files whose races are attributed to this property
	// OtherProps: observations for these properties are reported too (shared workloads)
}

type wline struct {
	K          string              `json:"k"`
	Prop       string              `json:"prop"`
	Sig        string              `json:"sig"`
	What       string              `json:"what"`
	Case       json.RawMessage     `json:"case"`
	V          json.RawMessage     `json:"v"`
	Counters   map[string]int64    `json:"counters"`
	Nontrivial map[string][]string `json:"nontrivial"`
	Distinct   map[string][]string `json:"distinct"`
}

// runWorkers runs `shards` vworker children and folds their reports into c.
func runWorkers(c *h.Ctx, o workerOpts) {
	bin := filepath.Join(c.BinDir, "vworker")
	if o.Race {
		bin = filepath.Join(c.BinDir, "vworker-race")
	}
	if o.Shards < 1 {
		o.Shards = 1
	}
	if o.Timeout == 0 {
		o.Timeout = 10 * time.Minute
	}
	var wg sync.WaitGroup
	for sh := 0; sh < o.Shards; sh++ {
		wg.Add(1)
		go func(sh int) {
			defer wg.Done()
			work := filepath.Join(c.Work, fmt.Sprintf("w.%s.%d.%v", o.Mode, sh, o.Race))
			os.MkdirAll(work, 0o755)
			argv := []string{bin, o.Mode, "prop=" + c.ID, "tier=" + c.Tier, fmt.Sprint("seed=", c.Seed), fmt.Sprint("shard=", sh), fmt.Sprint("shards=", o.Shards), "work=" + work}
			if o.Race {
				argv = append(argv, "race=1")
			}
			argv = append(argv, o.Extra...)
			env := append(h.BaseEnv(work), "TMPDIR="+work)
			if o.Race {
				env = append(env, "GORACE=halt_on_error=0 exitcode=0 log_path="+filepath.Join(work, "race.log"))
			}
			res := h.Proc{Argv: argv, Dir: work, Env: env, Timeout: o.Timeout}.Run()
			tag := o.Mode
			if o.Race {
				tag += "-race"
			}
			foldWorker(c, tag, res, o)
			if o.Race {
				foldRaceLogs(c, work, o.Anchors)
			}
			os.RemoveAll(work)
		}(sh)
	}
	wg.Wait()
}

func foldWorker(c *h.Ctx, tag string, res h.ProcResult, o workerOpts) {
	sc := bufio.NewScanner(bytes.NewReader(res.Stdout))
	sc.Buffer(make([]byte, 1<<20), 64<<20)
	ended := false
	last := ""
	for sc.Scan() {
		var l wline
		if json.Unmarshal(sc.Bytes(), &l) != nil {
			continue
		}
		switch l.K {
		case "begin":
			last = string(l.Case)
		case "viol":
			if l.Prop == c.ID {
				var cs interface{}
				json.Unmarshal(l.Case, &cs)
				c.Violate(l.Sig, l.What, cs)
			} else {
				c.Count("observations_for_other_properties", 1)
			}
		case "inconclusive":
			if l.Prop == c.ID || l.Prop == "" {
				c.Inconclusive(l.What)
			}
		case "sample":
			var v interface{}
			json.Unmarshal(l.V, &v)
			c.Sample(v)
		case "end":
			ended = true
			for k, v := range l.Counters {
				c.Count(tag+"."+k, v)
				if k == "executions" || k == "cases" {
					c.Eval(int(v))
				}
			}
			for _, k := range l.Nontrivial[c.ID] {
				c.Nontrivial("h:" + k)
			}
			for kind, ks := range l.Distinct {
				for _, k := range ks {
					c.Distinct(kind, k)
				}
			}
		}
	}
	if res.TimedOut {
		if h.DeadlockDump(res.Dump) {
			c.Violate("worker-deadlock/"+tag, "every taskctl goroutine of the in-process workload is parked:\n"+tail(res.Dump, 6000), map[string]interface{}{"last_case": last, "mode": o.Mode})
		} else {
			c.Inconclusive("worker " + tag + " stopped by the watchdog (still runnable); last case " + last)
		}
		return
	}
	if crashed, how := res.Crashed(); crashed || !ended {
		if !crashed {
			how = fmt.Sprintf("ended without report (exit %d)", res.Exit)
		}
		se := string(res.Stderr)
		c.Violate("worker-crash/"+h.TopFrame(se), "in-process workload "+tag+" died: "+how+"\n"+tail(se, 6000), map[string]interface{}{"last_case": last, "mode": o.Mode, "extra": o.Extra})
	}
}

func tail(s string, n int) string {
	if len(s) > n {
		return "…" + s[len(s)-n:]
	}
	return s
}

var raceFrame = regexp.MustCompile(`(?m)^\s+(/\S+\.go):(\d+)`)

// foldRaceLogs counts race-detector reports, de-duplicates them by the pair of
// top frames and attributes a report to the property when one of the two
// accesses is in an anchor file.
func foldRaceLogs(c *h.Ctx, dir string, anchors []string) {
	files, _ := filepath.Glob(filepath.Join(dir, "race.log*"))
	for _, f := range files {
		b, _ := os.ReadFile(f)
		blocks := strings.Split(string(b), "==================")
		for _, blk := range blocks {
			if !strings.Contains(blk, "WARNING: DATA RACE") {
				continue
			}
			c.Count("race_reports", 1)
			// the two accesses: sections up to the first "Goroutine ... created at"
			acc := blk
			if i := strings.Index(acc, "Goroutine "); i > 0 {
				acc = acc[:i]
			}
			secs := strings.Split(acc, "\n\n")
			var tops, funcs []string
			for _, s := range secs {
				lines := strings.Split(strings.TrimSpace(s), "\n")
				if len(lines) < 3 || !(strings.Contains(lines[0], " by ") || strings.Contains(lines[0], "WARNING")) {
					continue
				}
				start := 1
				if strings.Contains(lines[0], "WARNING") {
					start = 2
				}
				// first frame that is taskctl code (the runtime/sync frames above it are not interesting)
				for i := start; i+1 < len(lines); i += 2 {
					fn := strings.TrimSpace(lines[i])
					m := raceFrame.FindStringSubmatch(lines[i+1])
					if m == nil {
						continue
					}
					if strings.Contains(m[1], "/repo/") || strings.Contains(fn, "taskctl/") {
						tops = append(tops, strings.TrimPrefix(m[1], "/repo/"))
						if j := strings.LastIndex(fn, "("); j > 0 {
							fn = fn[:j]
						}
						funcs = append(funcs, strings.TrimPrefix(fn, "github.com/taskctl/taskctl/"))
						break
					}
				}
			}
			if len(tops) == 0 {
				// both accesses are inside library code (e.g. a bytes.Buffer handed to os/exec): attribute by
				// the taskctl frame that created the racing goroutines
				for _, sec := range strings.Split(blk, "\n\n") {
					if !strings.Contains(sec, "created at:") {
						continue
					}
					lines := strings.Split(strings.TrimSpace(sec), "\n")
					for i := 1; i+1 < len(lines); i += 2 {
						fn := strings.TrimSpace(lines[i])
						m := raceFrame.FindStringSubmatch(lines[i+1])
						if m != nil && (strings.Contains(m[1], "/repo/") || strings.Contains(fn, "taskctl/")) {
							tops = append(tops, strings.TrimPrefix(m[1], "/repo/"))
							if j := strings.LastIndex(fn, "("); j > 0 {
								fn = fn[:j]
							}
							funcs = append(funcs, "created-in:"+strings.TrimPrefix(fn, "github.com/taskctl/taskctl/"))
							break
						}
					}
				}
			}
			sort.Strings(funcs)
			sig := "data-race/" + strings.Join(funcs, "|")
			attributed := false
			for _, t := range tops {
				for _, a := range anchors {
					if t == a || strings.HasSuffix(t, "/"+a) {
						attributed = true
					}
				}
			}
			if len(tops) == 0 {
				c.Count("race_reports_outside_taskctl", 1)
				continue
			}
			if attributed {
				c.Violate(sig, "race detector: "+strings.Join(funcs, " / ")+" ("+strings.Join(tops, ", ")+")\n"+tail(blk, 5000), map[string]interface{}{"report": blk})
			} else {
				c.Count("unattributed_race_reports", 1)
				c.Distinct("unattributed_races", sig)
				noteUnattributed(c, sig+" @ "+strings.Join(tops, ", "))
			}
		}
	}
}

var unattrMu sync.Mutex
var unattr = map[string]int{}

func noteUnattributed(c *h.Ctx, s string) {
	unattrMu.Lock()
	unattr[s]++
	m := map[string]int{}
	for k, v := range unattr {
		m[k] = v
	}
	unattrMu.Unlock()
	c.Extra("unattributed_races", m)
}
