package main

import (
	"fmt"
	"os"
	"os/exec"
	"path/filepath"
	"strings"
	"syscall"
	"time"

	"verif/internal/gen"
	"verif/internal/h"
)

func c13(c *h.Ctx) {
	c.Rule = "(CLI additionally: a task with a timeout run by `taskctl watch`, at start-up and for a file event) in-process real TaskRunner: overrunning command (external sleep, shell busy loop, child ignoring SIGINT, sleep in a subshell, sleep in a pipeline) at every position of 1..3 commands, in before/after, with/without allow_failure, timeouts 100ms..1s; commands that fit (2 s timeout); n commands of 0.4 x timeout each; CLI: duration spellings; overrunning command (sleep / child ignoring SIGINT) run directly and as a pipeline stage with a dependant, with/without allow_failure: exit status, trace, and the command's process gone after taskctl exited. Oracle: SURVIVED token after the overrunning command must never appear, no later command token, error reported, spawned pid gone; non-trivial = every distinct case"
	c.Assumptions = []string{"the overrun margin is >= 20x the timeout, so the SURVIVED token is a safety observation, not a timing one", "harness commands exec their sleeper so no grandchild keeps the output pipe open", "clock-based bound (timeout + 2 s kill grace + 5 s) is secondary and re-confirmed three times before it counts"}
	runWorkers(c, workerOpts{Mode: "timeout", Shards: 6, Timeout: 25 * time.Minute})

	// CLI: duration spellings decoded from configuration
	dir := caseDir(c, "c13cli")
	defer os.RemoveAll(dir)
	spell := []struct {
		name string
		v    interface{}
		over bool
	}{{"ms", "200ms", true}, {"s", "1s", true}, {"intns", gen.Raw("300000000"), true}, {"long", "30s", false}, {"min", "1m", false}}
	h.Par(len(spell), 5, func(i int) {
		s := spell[i]
		trace := fmt.Sprintf("%s/trace.%s", dir, s.name)
		cmd := fmt.Sprintf("printf 'START\\n' >> '%s'; sleep 0.05", trace)
		if s.over {
			cmd = fmt.Sprintf("printf 'START\\n' >> '%s'; sh -c 'exec sleep 20'; printf 'SURVIVED\\n' >> '%s'", trace, trace)
		}
		cfg := gen.OM{{K: "tasks", V: gen.OM{{K: "t", V: gen.OM{{K: "command", V: []interface{}{cmd, fmt.Sprintf("printf 'NEXT\\n' >> '%s'", trace)}}, {K: "timeout", V: s.v}}}}}}
		f := fmt.Sprintf("%s/%s.yaml", dir, s.name)
		h.WriteFile(f, gen.YAML(cfg))
		res := tc{Dir: dir, Timeout: 40 * time.Second}.run(c, "-c", f, "-o", "raw", "t")
		c.Eval(1)
		got := strings.Fields(h.ReadFile(trace))
		cas := map[string]interface{}{"yaml": gen.YAML(cfg), "exit": res.Exit, "trace": got, "took_ms": res.Dur.Milliseconds()}
		want := "START NEXT"
		if s.over {
			want = "START"
		}
		if strings.Join(got, " ") != want {
			c.Violate("cli-timeout-spelling/"+s.name, fmt.Sprintf("timeout %v: trace %v, want %q", s.v, got, want), cas)
		}
		if (res.Exit != 0) != s.over {
			c.Violate("cli-timeout-exit/"+s.name, fmt.Sprintf("timeout %v: exit %d", s.v, res.Exit), cas)
		}
		c.Nontrivial("cli" + s.name)
	})
	// CLI: what the user sees of an overrunning command - run directly and as a pipeline stage with a dependant:
	// non-zero exit status, nothing after the overrun, and the command's process gone once taskctl has exited
	type cliCase struct {
		staged, allow bool
		shape         string
	}
	var cc []cliCase
	for _, staged := range []bool{false, true} {
		for _, allow := range []bool{false, true} {
			for _, shape := range []string{"sleep", "ignore-int"} {
				cc = append(cc, cliCase{staged, allow, shape})
			}
		}
	}
	h.Par(len(cc), 8, func(i int) {
		k := cc[i]
		d := fmt.Sprintf("%s/proc.%d", dir, i)
		os.MkdirAll(d, 0o755)
		trace, pidfile := d+"/trace", d+"/pids"
		over := fmt.Sprintf("sh -c 'echo $$ >> %s; exec sleep 20'", pidfile)
		if k.shape == "ignore-int" {
			over = fmt.Sprintf("sh -c 'trap \"\" INT; echo $$ >> %s; exec sleep 20'", pidfile)
		}
		tdef := gen.OM{{K: "command", V: []interface{}{fmt.Sprintf("printf 'START\\n' >> '%s'; %s; printf 'SURVIVED\\n' >> '%s'", trace, over, trace), fmt.Sprintf("printf 'NEXT\\n' >> '%s'", trace)}}, {K: "timeout", V: "300ms"}, {K: "allow_failure", V: k.allow}}
		cfg := gen.OM{{K: "tasks", V: gen.OM{{K: "t", V: tdef}, {K: "dep", V: gen.OM{{K: "command", V: fmt.Sprintf("printf 'DEPENDANT\\n' >> '%s'", trace)}}}}},
			{K: "pipelines", V: gen.OM{{K: "p", V: []interface{}{gen.OM{{K: "name", V: "first"}, {K: "task", V: "t"}}, gen.OM{{K: "name", V: "second"}, {K: "task", V: "dep"}, {K: "depends_on", V: []interface{}{"first"}}}}}}}}
		f := d + "/tasks.yaml"
		h.WriteFile(f, gen.YAML(cfg))
		target := "t"
		if k.staged {
			target = "p"
		}
		res := tc{Dir: d, Timeout: 60 * time.Second, KeepGroup: true}.run(c, "-c", f, "-o", "raw", target)
		defer syscall.Kill(-res.Pgid, syscall.SIGKILL)
		c.Eval(1)
		got := strings.Fields(h.ReadFile(trace))
		cas := map[string]interface{}{"yaml": gen.YAML(cfg), "target": target, "exit": res.Exit, "trace": got, "took_ms": res.Dur.Milliseconds(), "stderr": tail(stripANSI(string(res.Stderr)), 400)}
		if crashed, how := res.CrashedNotByStatus(); crashed {
			c.Violate("cli-crash/"+h.TopFrame(string(res.Stderr)), "taskctl died: "+how, cas)
			return
		}
		if strings.Join(got, " ") != "START" {
			c.Violate("cli-overrun-trace", fmt.Sprintf("%s (allow_failure=%v, %s): trace %v, the statement requires [START]", target, k.allow, k.shape, got), cas)
		}
		if res.Exit == 0 {
			c.Violate("cli-timeout-not-reported-as-failure", fmt.Sprintf("`taskctl %s` exits 0 although a command of the task overran its timeout (allow_failure=%v, %s)", target, k.allow, k.shape), cas)
		}
		for _, ps := range strings.Fields(h.ReadFile(pidfile)) {
			gone := false
			for w := 0; w < 50 && !gone; w++ {
				b, err := os.ReadFile("/proc/" + ps + "/stat")
				if fs := strings.Fields(string(b)); err != nil || (len(fs) > 2 && fs[2] == "Z") {
					gone = true
				} else {
					time.Sleep(100 * time.Millisecond)
				}
			}
			if !gone {
				c.Violate("cli-process-alive-after-exit/"+k.shape, fmt.Sprintf("process %s of the overrunning command is still running 5 s after taskctl exited", ps), cas)
				if pid := 0; true {
					fmt.Sscan(ps, &pid)
					if pr, e := os.FindProcess(pid); e == nil && pid > 1 {
						pr.Kill()
					}
				}
			}
			c.Count("cli_overrun_processes_checked", 1)
		}
		c.Nontrivial(fmt.Sprint("cliproc", k))
	})
	// CLI: a task run by a watcher - at start-up and again for a file event - is bounded in the same way
	h.Par(c.N(2, 6), 3, func(i int) {
		wdir := caseDir(c, fmt.Sprintf("c13watch.%d", i))
		defer os.RemoveAll(wdir)
		real, _ := filepath.EvalSymlinks(wdir)
		os.MkdirAll(real+"/tree", 0o755)
		h.WriteFile(real+"/tree/a.txt", "x\n")
		trace := real + "/trace"
		tmo := []string{"300ms", "1s", "500ms"}[i%3]
		cmd := fmt.Sprintf("printf 'START\\n' >> '%s'; sh -c 'exec sleep 5'; printf 'SURVIVED\\n' >> '%s'", trace, trace)
		cfg := gen.OM{{K: "tasks", V: gen.OM{{K: "t", V: gen.OM{{K: "command", V: []interface{}{cmd, fmt.Sprintf("printf 'NEXT\\n' >> '%s'", trace)}}, {K: "timeout", V: tmo}, {K: "allow_failure", V: i%2 == 1}}}}},
			{K: "watchers", V: gen.OM{{K: "w", V: gen.OM{{K: "watch", V: []interface{}{"tree/*.txt"}}, {K: "events", V: []interface{}{"write"}}, {K: "task", V: "t"}}}}}}
		h.WriteFile(real+"/tasks.yaml", gen.YAML(cfg))
		home := real + "/home"
		os.MkdirAll(home, 0o755)
		se, _ := os.Create(real + "/stderr")
		defer se.Close()
		wp := exec.Command(c.Bin, "-c", real+"/tasks.yaml", "-o", "raw", "watch", "w")
		wp.Dir, wp.Env, wp.Stdout, wp.Stderr = real, h.BaseEnv(home), se, se
		wp.SysProcAttr = &syscall.SysProcAttr{Setpgid: true}
		c.Count("taskctl_processes", 1)
		if err := wp.Start(); err != nil {
			c.Inconclusive("watch process could not be started: " + err.Error())
			return
		}
		defer func() {
			syscall.Kill(-wp.Process.Pid, syscall.SIGKILL)
			wp.Wait()
		}()
		c.Eval(1)
		starts := func() int { return strings.Count(h.ReadFile(trace), "START") }
		if !waitFor(30*time.Second, func() bool { return starts() >= 1 }) {
			c.Inconclusive(fmt.Sprintf("watch case %d: the watcher's first run did not start within 30 s: %s", i, tail(stripANSI(h.ReadFile(real+"/stderr")), 300)))
			return
		}
		// the first run is cut off; then one write, served as a second run
		time.Sleep(2500 * time.Millisecond)
		served := false
		for try := 0; try < 3 && !served; try++ {
			if f, err := os.OpenFile(real+"/tree/a.txt", os.O_APPEND|os.O_WRONLY, 0o644); err == nil {
				f.WriteString("more\n")
				f.Close()
			}
			served = waitFor(8*time.Second, func() bool { return starts() >= 2 })
		}
		if !served {
			c.Inconclusive(fmt.Sprintf("watch case %d: no run for the file event (that is C20's question)", i))
			return
		}
		// a surviving command would write its mark 5 s after its START
		time.Sleep(7 * time.Second)
		got := strings.Fields(h.ReadFile(trace))
		cas := map[string]interface{}{"yaml": gen.YAML(cfg), "trace": got, "stderr": tail(stripANSI(h.ReadFile(real+"/stderr")), 600)}
		for _, g := range got {
			if g != "START" {
				c.Violate("cli-watch-run-not-bounded/"+g, fmt.Sprintf("timeout %s, task run by a watcher (start-up run, then a run for a write): trace %v - the overrunning command ran to its end or the next command started", tmo, got), cas)
				break
			}
		}
		c.Count("watcher_runs_observed", int64(len(got)))
		c.Nontrivial(fmt.Sprint("cliwatch", i))
	})
}

func init() { checks["C13"] = checkDef{"exploration", c13} }
