package main

import (
	"fmt"
	"os"
	"strings"
	"time"

	"verif/internal/gen"
	"verif/internal/h"
)

func c13(c *h.Ctx) {
	c.Rule = "in-process real TaskRunner: overrunning command (external sleep, shell busy loop, child ignoring SIGINT, sleep in a subshell, sleep in a pipeline) at every position of 1..3 commands, in before/after, with/without allow_failure, timeouts 100ms..1s; commands that fit (2 s timeout); n commands of 0.4 x timeout each; CLI sample for duration spellings. Oracle: SURVIVED token after the overrunning command must never appear, no later command token, error reported, spawned pid gone; non-trivial = every distinct case"
	c.Assumptions = []string{"the overrun margin is >= 20x the timeout, so the SURVIVED token is a safety observation, not a timing one", "harness commands exec their sleeper so no grandchild keeps the output pipe open", "clock-based bound (timeout + 2 s kill grace + 5 s) is secondary and re-confirmed three times before it counts"}
	runWorkers(c, workerOpts{Mode: "timeout", Shards: 6, Timeout: 25 * time.Minute})

	// CLI: duration spellings decoded from configuration
	dir := caseDir(c, "c13cli")
	defer os.RemoveAll(dir)
	spell := []struct {
		name string
		v    interface{}
		over bool
	}{{"ms", "200ms", true}, {"s", "1s", true}, {"intns", gen.Raw("300000000"), true}, {"long", "30s", false}, {"min", "1m", false}}
	h.Par(len(spell), 5, func(i int) {
		s := spell[i]
		trace := fmt.Sprintf("%s/trace.%s", dir, s.name)
		cmd := fmt.Sprintf("printf 'START\\n' >> '%s'; sleep 0.05", trace)
		if s.over {
			cmd = fmt.Sprintf("printf 'START\\n' >> '%s'; sh -c 'exec sleep 20'; printf 'SURVIVED\\n' >> '%s'", trace, trace)
		}
		cfg := gen.OM{{K: "tasks", V: gen.OM{{K: "t", V: gen.OM{{K: "command", V: []interface{}{cmd, fmt.Sprintf("printf 'NEXT\\n' >> '%s'", trace)}}, {K: "timeout", V: s.v}}}}}}
		f := fmt.Sprintf("%s/%s.yaml", dir, s.name)
		h.WriteFile(f, gen.YAML(cfg))
		res := tc{Dir: dir, Timeout: 40 * time.Second}.run(c, "-c", f, "-o", "raw", "t")
		c.Eval(1)
		got := strings.Fields(h.ReadFile(trace))
		cas := map[string]interface{}{"yaml": gen.YAML(cfg), "exit": res.Exit, "trace": got, "took_ms": res.Dur.Milliseconds()}
		want := "START NEXT"
		if s.over {
			want = "START"
		}
		if strings.Join(got, " ") != want {
			c.Violate("cli-timeout-spelling/"+s.name, fmt.Sprintf("timeout %v: trace %v, want %q", s.v, got, want), cas)
		}
		if (res.Exit != 0) != s.over {
			c.Violate("cli-timeout-exit/"+s.name, fmt.Sprintf("timeout %v: exit %d", s.v, res.Exit), cas)
		}
		c.Nontrivial("cli" + s.name)
	})
}

func init() { checks["C13"] = checkDef{"exploration", c13} }
