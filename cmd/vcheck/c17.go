package main

import (
	"fmt"
	"os"
	"path/filepath"
	"sort"
	"strings"
	"time"

	"verif/internal/gen"
	"verif/internal/h"
)

// file i lives in a directory of depth i%3 so that relative resolution matters.
func c17path(i int) string {
	switch i % 3 {
	case 1:
		return fmt.Sprintf("a/f%d.yaml", i)
	case 2:
		return fmt.Sprintf("a/b/f%d.yaml", i)
	}
	return fmt.Sprintf("f%d.yaml", i)
}

type c17case struct {
	N      int     `json:"files"`
	Edges  [][]int `json:"imports"` // Edges[i] = files imported by file i (in order; may repeat)
	Root   int     `json:"root"`
	DirImp []int   `json:"dir_importers"`      // files that also import the directory "lib"
	LibSib bool    `json:"lib_sibling_import"` // lib/l100.yaml also imports its sibling lib/l101.yaml (which sorts later)
	LibImp int     `json:"lib_imports"`        // file imported by lib/l100.yaml (the first file of the directory), -1 = none
	Break  int     `json:"break"`              // index of a file made missing/broken (-1 none); -2 = a file of the directory
	How    string  `json:"how"`                // missing | syntax | wrongtype
	// LibExplicit: every importer of the directory "lib" also imports, by name and after the directory, files of
	// that directory the directory import does not pick up (lib/extra.json, lib/more.toml)
	LibExplicit bool `json:"lib_files_also_imported_by_name,omitempty"`
	// LibFileFirst: every importer of the directory names its first file (lib/l100.yaml) in front of the directory
	LibFileFirst bool `json:"file_of_the_directory_imported_first,omitempty"`
	// Odd: the directory also holds a symbolic link to a .yaml file kept elsewhere; the root also imports a .yml file and a
	// directory with a dot in its name
	Odd bool `json:"symlinked_file_yml_and_dotted_directory,omitempty"`
	// CaseTwin: the root also imports two files whose names differ only in letter case
	CaseTwin bool `json:"names_differing_in_case_only,omitempty"`
}

func relPath(from, to string) string {
	r, err := filepath.Rel(filepath.Dir(from), to)
	if err != nil {
		panic(err)
	}
	return r
}

func runC17(c *h.Ctx, idx int, cs c17case) {
	dir := caseDir(c, fmt.Sprintf("c17.%d", idx))
	defer os.RemoveAll(dir)
	real, _ := filepath.EvalSymlinks(dir)
	fileDef := func(i int, imports []string) string {
		o := gen.OM{}
		if len(imports) > 0 {
			var l []interface{}
			for _, x := range imports {
				l = append(l, x)
			}
			o.Set("import", l)
		}
		o.Set("tasks", gen.OM{{K: fmt.Sprintf("task_%d", i), V: gen.OM{{K: "command", V: []interface{}{"true"}}}}})
		o.Set("pipelines", gen.OM{{K: fmt.Sprintf("pipe_%d", i), V: []interface{}{gen.OM{{K: "task", V: fmt.Sprintf("task_%d", i)}}}}})
		o.Set("contexts", gen.OM{{K: fmt.Sprintf("ctx_%d", i), V: gen.OM{{K: "env", V: gen.OM{{K: "A", V: "1"}}}}}})
		return gen.YAML(o)
	}
	usesDir := map[int]bool{}
	for _, d := range cs.DirImp {
		usesDir[d] = true
	}
	for i := 0; i < cs.N; i++ {
		var imps []string
		for _, j := range cs.Edges[i] {
			imps = append(imps, relPath(c17path(i), c17path(j)))
		}
		if usesDir[i] {
			if cs.LibFileFirst {
				imps = append(imps, relPath(c17path(i), "lib/l100.yaml"))
			}
			imps = append(imps, relPath(c17path(i), "lib"))
			if cs.LibExplicit {
				imps = append(imps, relPath(c17path(i), "lib/extra.json"), relPath(c17path(i), "lib/more.toml"))
			}
		}
		if cs.CaseTwin && i == cs.Root {
			imps = append(imps, "Twin.yaml", "twin.yaml")
		}
		if cs.Odd && i == cs.Root {
			imps = append(imps, "extra.yml", "conf.d")
		}
		content := fileDef(i, imps)
		if i == cs.Break {
			switch cs.How {
			case "missing":
				continue
			case "syntax":
				content = "tasks: [unclosed\n  - {\n"
			case "wrongtype":
				content = "tasks: 5\n"
			}
		}
		h.WriteFile(real+"/"+c17path(i), content)
	}
	if len(cs.DirImp) > 0 {
		var libImps []string
		if cs.LibImp >= 0 {
			libImps = []string{relPath("lib/l100.yaml", c17path(cs.LibImp))}
		}
		if cs.LibSib {
			libImps = append(libImps, "l101.yaml")
		}
		h.WriteFile(real+"/lib/l100.yaml", fileDef(100, libImps))
		l101 := fileDef(101, nil)
		if cs.Break == -2 {
			l101 = "tasks: [unclosed\n"
		}
		h.WriteFile(real+"/lib/l101.yaml", l101)
		h.WriteFile(real+"/lib/ignored.json", "{\"tasks\": {\"task_json\": {\"command\": [\"true\"]}}}")
		h.WriteFile(real+"/lib/ignored.txt", "not a configuration")
		if cs.LibExplicit {
			h.WriteFile(real+"/lib/extra.json", "{\"tasks\": {\"task_200\": {\"command\": [\"true\"]}}, \"pipelines\": {\"pipe_200\": [{\"task\": \"task_200\"}]}, \"contexts\": {\"ctx_200\": {\"env\": {\"A\": \"1\"}}}}")
			h.WriteFile(real+"/lib/more.toml", "[tasks.task_201]\ncommand = [\"true\"]\n[[pipelines.pipe_201]]\ntask = \"task_201\"\n[contexts.ctx_201.env]\nA = \"1\"\n")
		}
	}
	if cs.Odd {
		rd := filepath.Dir(real + "/" + c17path(cs.Root))
		h.WriteFile(rd+"/extra.yml", fileDef(400, nil))
		h.WriteFile(rd+"/conf.d/one.yaml", fileDef(401, nil))
		h.WriteFile(rd+"/conf.d/two.yaml", fileDef(402, nil))
		if len(cs.DirImp) > 0 {
			h.WriteFile(real+"/shared/common.yaml", fileDef(403, nil))
			os.Symlink(real+"/shared/common.yaml", real+"/lib/l102.yaml")
		}
	}
	if cs.CaseTwin {
		rd := filepath.Dir(real + "/" + c17path(cs.Root))
		h.WriteFile(rd+"/Twin.yaml", fileDef(300, nil))
		h.WriteFile(rd+"/twin.yaml", fileDef(301, nil))
	}
	// oracle: BFS closure
	seen := map[int]bool{cs.Root: true}
	q := []int{cs.Root}
	dirReached := false
	for len(q) > 0 {
		x := q[0]
		q = q[1:]
		if usesDir[x] && !dirReached {
			dirReached = true
			if cs.LibImp >= 0 && !seen[cs.LibImp] {
				seen[cs.LibImp] = true
				q = append(q, cs.LibImp)
			}
		}
		for _, y := range cs.Edges[x] {
			if !seen[y] {
				seen[y] = true
				q = append(q, y)
			}
		}
	}
	var want []string
	for i := range seen {
		want = append(want, fmt.Sprintf("task_%d", i))
	}
	if dirReached {
		want = append(want, "task_100", "task_101")
		if cs.LibExplicit {
			want = append(want, "task_200", "task_201")
		}
	}
	if cs.CaseTwin {
		want = append(want, "task_300", "task_301")
	}
	if cs.Odd {
		want = append(want, "task_400", "task_401", "task_402")
		if dirReached {
			want = append(want, "task_403")
		}
	}
	sort.Strings(want)
	brokenInClosure := (cs.Break >= 0 && seen[cs.Break]) || (cs.Break == -2 && dirReached)
	rootFile := real + "/" + c17path(cs.Root)
	res := tc{Dir: real, Timeout: 15 * time.Second}.run(c, "-c", rootFile, "list")
	c.Eval(1)
	cas := map[string]interface{}{"case": cs, "exit": res.Exit, "stdout": clip(string(res.Stdout), 800), "stderr": clip(stripANSI(string(res.Stderr)), 800), "want_tasks": want}
	if res.TimedOut {
		again := 0
		for k := 0; k < 3; k++ {
			if (tc{Dir: real, Timeout: 15 * time.Second}).run(c, "-c", rootFile, "list").TimedOut {
				again++
			}
		}
		if again == 3 {
			c.Violate("import-load-does-not-terminate", "loading did not finish within 15 s (four times)", cas)
		} else {
			c.Inconclusive("watchdog fired once")
		}
		return
	}
	if crashed, how := res.Crashed(); crashed {
		c.Violate("cli-crash/"+h.TopFrame(string(res.Stderr)), "taskctl died: "+how, cas)
		return
	}
	if brokenInClosure {
		if cs.Break == cs.Root {
			// the root itself: must fail, nothing more to say
		}
		if res.Exit == 0 {
			direct := "nested"
			for _, y := range cs.Edges[cs.Root] {
				if y == cs.Break {
					direct = "direct"
				}
			}
			if cs.Break == -2 {
				direct = "directory"
			}
			if cs.Break == cs.Root {
				direct = "root"
			}
			c.Violate("broken-import-accepted/"+cs.How+"/"+direct, fmt.Sprintf("file %v of the import closure is %s but loading succeeded with a partial configuration", cs.Break, cs.How), cas)
		}
		c.Nontrivial(h.MustJSON(cs))
		return
	}
	if res.Exit != 0 {
		c.Violate("valid-import-structure-rejected", "loading failed: "+clip(stripANSI(string(res.Stderr)), 300), cas)
		return
	}
	got := listSection(string(res.Stdout), "Tasks:")
	if strings.Join(got, ",") != strings.Join(want, ",") {
		sig := "import-closure-differs"
		if len(got) < len(want) {
			sig = "imported-definitions-missing"
		}
		c.Violate(sig, fmt.Sprintf("tasks listed %v, the import closure defines %v", got, want), cas)
	}
	gp := listSection(string(res.Stdout), "Pipelines:")
	if len(gp) != len(want) {
		c.Violate("import-closure-differs/pipelines", fmt.Sprintf("%d pipelines listed for %d files in the closure: %v", len(gp), len(want), gp), cas)
	}
	gc := listSection(string(res.Stdout), "Contexts:")
	if len(gc) != len(want) {
		c.Violate("import-closure-differs/contexts", fmt.Sprintf("%d contexts listed for %d files in the closure: %v", len(gc), len(want), gc), cas)
	}
	c.Count("definitions_compared", int64(len(want)*3))
	ne := 0
	for _, e := range cs.Edges {
		ne += len(e)
	}
	if ne > 0 || len(cs.DirImp) > 0 {
		c.Nontrivial(h.MustJSON(cs))
	}
	if idx%211 == 0 {
		c.Sample(cas)
	}
}

// listSection extracts the "- name" items below a heading of `taskctl list`.
func listSection(out, heading string) []string {
	var r []string
	in := false
	for _, ln := range strings.Split(out, "\n") {
		t := strings.TrimSpace(ln)
		if strings.HasSuffix(t, ":") || strings.Contains(t, ": no ") {
			in = strings.HasPrefix(t, heading)
			continue
		}
		if in && strings.HasPrefix(t, "- ") {
			r = append(r, strings.TrimPrefix(t, "- "))
		}
	}
	sort.Strings(r)
	return r
}

func c17global(c *h.Ctx, idx, mask int) {
	dir := caseDir(c, fmt.Sprintf("c17g.%d", idx))
	defer os.RemoveAll(dir)
	real, _ := filepath.EvalSymlinks(dir)
	home := real + "/home"
	proj := real + "/proj"
	os.MkdirAll(home+"/.taskctl", 0o755)
	os.MkdirAll(proj, 0o755)
	trace := real + "/trace"
	// four definitions: task A, task B (uses context C and variable V), context C, variable V
	g, p := gen.OM{}, gen.OM{}
	put := func(bit int, section, key string, v interface{}) {
		dst := &p
		if mask&(1<<uint(bit)) != 0 {
			dst = &g
		}
		cur, _ := dst.Get(section)
		m, _ := cur.(gen.OM)
		m.Set(key, v)
		dst.Set(section, m)
	}
	put(0, "tasks", "task-a", gen.OM{{K: "command", V: []interface{}{fmt.Sprintf("printf 'A\\n' >> '%s'", trace)}}})
	put(1, "tasks", "task-b", gen.OM{{K: "context", V: "ctx-c"}, {K: "command", V: []interface{}{fmt.Sprintf("printf 'B:%%s:%%s\\n' \"$FROMCTX\" '{{.VARV}}' >> '%s'", trace)}}})
	put(2, "contexts", "ctx-c", gen.OM{{K: "env", V: gen.OM{{K: "FROMCTX", V: "ctxenv"}}}})
	put(3, "variables", "VARV", "varvalue")
	if len(g) > 0 {
		h.WriteFile(home+"/.taskctl/config.yaml", gen.YAML(g))
	}
	pc := gen.YAML(p)
	if len(p) == 0 {
		pc = "{}\n"
	}
	h.WriteFile(proj+"/tasks.yaml", pc)
	cas := map[string]interface{}{"global": gen.YAML(g), "project": pc, "mask": mask}
	res := tc{Dir: proj, Home: home, Timeout: 15 * time.Second}.run(c, "list")
	c.Eval(1)
	if crashed, how := res.Crashed(); crashed {
		c.Violate("cli-crash/"+h.TopFrame(string(res.Stderr)), "taskctl died: "+how, cas)
		return
	}
	cas["list"] = string(res.Stdout)
	cas["stderr"] = clip(stripANSI(string(res.Stderr)), 500)
	tasks := listSection(string(res.Stdout), "Tasks:")
	ctxs := listSection(string(res.Stdout), "Contexts:")
	if res.Exit != 0 || strings.Join(tasks, ",") != "task-a,task-b" || strings.Join(ctxs, ",") != "ctx-c" {
		c.Violate("global-project-split/definition-missing", fmt.Sprintf("exit %d, tasks %v contexts %v; expected task-a, task-b and ctx-c from global+project", res.Exit, tasks, ctxs), cas)
		return
	}
	res = tc{Dir: proj, Home: home, Timeout: 15 * time.Second}.run(c, "-o", "raw", "task-a", "task-b")
	c.Eval(1)
	got := strings.Join(lines(h.ReadFile(trace)), " ")
	cas["run_exit"], cas["trace"], cas["run_stderr"] = res.Exit, got, clip(stripANSI(string(res.Stderr)), 500)
	if res.Exit != 0 || got != "A B:ctxenv:varvalue" {
		sig := "global-project-split/definition-unusable"
		if strings.Contains(string(res.Stderr), "VARV") {
			sig = "global-project-split/variable-missing"
		}
		c.Violate(sig, fmt.Sprintf("running task-a task-b: exit %d, trace %q, expected \"A B:ctxenv:varvalue\"", res.Exit, got), cas)
	}
	c.Nontrivial(fmt.Sprint("global", mask))
	if mask == 5 {
		c.Sample(cas)
	}
}

func c17(c *h.Ctx) {
	c.Rule = "every import graph on 1..3 files (every edge subset incl. self-loops and cycles) x every root, files in nested directories (relative paths resolved against the importer); seeded graphs on 4..6 files with repeated entries and a directory import (*.yaml only); each file of the closure in turn made missing / syntactically broken / wrong-typed; every split (16) of {task, task using a context and a variable, context, variable} between $HOME/.taskctl/config.yaml and the project file. Oracle: BFS closure computed by the checker vs `taskctl list`; broken closure => non-zero exit; bounded time. non-trivial = distinct cases with >=1 import edge, broken file or split"
	c.Assumptions = []string{"files outside the closure being broken, symlinked paths and conflicting definitions are outside the statement", "every file defines its own task, pipeline and context so that a file loaded twice shows up as duplicated stages"}
	var cases []c17case
	for n := 1; n <= 3; n++ {
		for mask := 0; mask < 1<<uint(n*n); mask++ {
			edges := make([][]int, n)
			for i := 0; i < n; i++ {
				for j := 0; j < n; j++ {
					if mask&(1<<uint(i*n+j)) != 0 {
						edges[i] = append(edges[i], j)
					}
				}
			}
			for root := 0; root < n; root++ {
				cases = append(cases, c17case{N: n, Edges: edges, Root: root, Break: -1, LibImp: -1})
			}
		}
	}
	exhaustiveN := len(cases)
	rnd := c.Rand("c17")
	// broken files at every position of small graphs
	for _, base := range append([]c17case{}, cases[:exhaustiveN]...) {
		if base.N < 2 || !rnd.Chance(c.N(6, 60)) {
			continue
		}
		for b := 0; b < base.N; b++ {
			for _, how := range []string{"missing", "syntax", "wrongtype"} {
				cs := base
				cs.Break, cs.How = b, how
				cases = append(cases, cs)
			}
		}
	}
	// chains / diamonds with a broken leaf (nested import) — always present
	for _, how := range []string{"missing", "syntax", "wrongtype"} {
		cases = append(cases, c17case{N: 3, Edges: [][]int{{1}, {2}, {}}, Root: 0, Break: 2, How: how, LibImp: -1})
		cases = append(cases, c17case{N: 2, Edges: [][]int{{1}, {}}, Root: 0, Break: 1, How: how, LibImp: -1})
		cases = append(cases, c17case{N: 4, Edges: [][]int{{1, 2}, {3}, {3}, {}}, Root: 0, Break: 3, How: how, LibImp: -1})
	}
	cases = append(cases, c17case{N: 2, Edges: [][]int{{1}, {}}, Root: 0, DirImp: []int{1}, Break: -2, How: "syntax", LibImp: -1})
	// a directory whose first file has an import of its own, followed by plain files
	cases = append(cases, c17case{N: 2, Edges: [][]int{{}, {}}, Root: 0, DirImp: []int{0}, Break: -1, LibImp: 1})
	cases = append(cases, c17case{N: 3, Edges: [][]int{{1}, {}, {}}, Root: 0, DirImp: []int{1}, Break: -1, LibImp: 2})
	cases = append(cases, c17case{N: 1, Edges: [][]int{{}}, Root: 0, DirImp: []int{0}, Break: -1, LibImp: 0})
	// a file of the directory imports a sibling that sorts later in the same directory
	cases = append(cases, c17case{N: 1, Edges: [][]int{{}}, Root: 0, DirImp: []int{0}, Break: -1, LibImp: -1, LibSib: true})
	cases = append(cases, c17case{N: 2, Edges: [][]int{{1}, {}}, Root: 0, DirImp: []int{1}, Break: -1, LibImp: 0, LibSib: true})
	cases = append(cases, c17case{N: 1, Edges: [][]int{{}}, Root: 0, DirImp: []int{0}, Break: -1, LibImp: -1, Odd: true})
	cases = append(cases, c17case{N: 2, Edges: [][]int{{1}, {}}, Root: 0, Break: -1, LibImp: -1, Odd: true})
	cases = append(cases, c17case{N: 1, Edges: [][]int{{}}, Root: 0, DirImp: []int{0}, Break: -1, LibImp: -1, LibFileFirst: true})
	cases = append(cases, c17case{N: 2, Edges: [][]int{{1}, {}}, Root: 0, DirImp: []int{1, 0}, Break: -1, LibImp: -1, LibFileFirst: true, LibSib: true})
	cases = append(cases, c17case{N: 1, Edges: [][]int{{}}, Root: 0, DirImp: []int{0}, Break: -1, LibImp: -1, LibExplicit: true})
	cases = append(cases, c17case{N: 2, Edges: [][]int{{1}, {}}, Root: 0, DirImp: []int{1}, Break: -1, LibImp: -1, LibExplicit: true, CaseTwin: true})
	cases = append(cases, c17case{N: 2, Edges: [][]int{{1}, {0}}, Root: 1, Break: -1, LibImp: -1, CaseTwin: true})
	for i := 0; i < c.N(150, 6000); i++ {
		n := rnd.Range(4, 6)
		edges := make([][]int, n)
		for x := 0; x < n; x++ {
			for y := 0; y < n; y++ {
				if rnd.Chance(22) {
					edges[x] = append(edges[x], y)
				}
			}
			if len(edges[x]) > 0 && rnd.Chance(20) {
				edges[x] = append(edges[x], edges[x][0]) // the same import listed twice
			}
		}
		cs := c17case{N: n, Edges: edges, Root: rnd.Intn(n), Break: -1, LibImp: -1}
		if rnd.Chance(40) {
			cs.DirImp = []int{rnd.Intn(n)}
			if rnd.Chance(50) {
				cs.LibImp = rnd.Intn(n)
			}
			cs.LibSib = rnd.Chance(30)
			if rnd.Chance(30) {
				cs.DirImp = append(cs.DirImp, rnd.Intn(n))
			}
			cs.LibExplicit = rnd.Chance(40)
			cs.LibFileFirst = rnd.Chance(35)
		}
		cs.CaseTwin = rnd.Chance(20)
		cs.Odd = rnd.Chance(25)
		if rnd.Chance(30) {
			cs.Break = rnd.Intn(n)
			cs.How = []string{"missing", "syntax", "wrongtype"}[rnd.Intn(3)]
		}
		cases = append(cases, cs)
	}
	c.Extra("exhaustive_subspace", fmt.Sprintf("all import graphs on <=3 files x every root = %d cases", exhaustiveN))
	h.Par(len(cases), 16, func(i int) { runC17(c, i, cases[i]) })
	h.Par(16, 16, func(m int) { c17global(c, m, m) })
	c17discovered(c)
	c17big(c)
	c17brokenGlobal(c)
}

// c17big: a file of the closure larger than a mebibyte (generated task definitions): every definition of it is there.
func c17big(c *h.Ctx) {
	dir := caseDir(c, "c17big")
	defer os.RemoveAll(dir)
	real, _ := filepath.EvalSymlinks(dir)
	var sb strings.Builder
	sb.WriteString("tasks:\n")
	n := 40000
	for i := 0; i < n; i++ {
		fmt.Fprintf(&sb, "  t%06d:\n    command: [\"true\"]\n", i)
	}
	h.WriteFile(real+"/generated/services.yaml", sb.String())
	h.WriteFile(real+"/tasks.yaml", "import: [\"generated\"]\ntasks:\n  root-task:\n    command: [\"true\"]\n")
	res := tc{Dir: real, Timeout: 120 * time.Second}.run(c, "-c", real+"/tasks.yaml", "list", "tasks")
	c.Eval(1)
	cas := map[string]interface{}{"imported_file_bytes": sb.Len(), "tasks_in_it": n, "exit": res.Exit, "stderr": clip(stripANSI(string(res.Stderr)), 400)}
	if crashed, how := res.Crashed(); crashed {
		c.Violate("cli-crash/"+h.TopFrame(string(res.Stderr)), "taskctl died: "+how, cas)
		return
	}
	listed := map[string]bool{}
	for _, w := range strings.Fields(stripANSI(string(res.Stdout))) {
		listed[strings.Trim(w, "-*,")] = true
	}
	missing := 0
	first := ""
	for i := 0; i < n; i += 1 {
		name := fmt.Sprintf("t%06d", i)
		if !listed[name] {
			missing++
			if first == "" {
				first = name
			}
		}
	}
	if res.Exit != 0 || missing > 0 {
		c.Violate("imported-definitions-missing/large-file", fmt.Sprintf("exit %d; %d of the %d tasks of a %d-byte imported file are not listed (first missing: %s)", res.Exit, missing, n, sb.Len(), first), cas)
	}
	c.Count("large_file_tasks_checked", int64(n))
	c.Nontrivial("big")
}

// c17discovered: the project file is found by default discovery (no -c), $HOME has a global configuration, and one
// entry of the project's own import list is missing / broken: the load fails - the global configuration alone is
// not "the configuration".
func c17discovered(c *h.Ctx) {
	kinds := []string{"missing-file", "missing-directory", "syntax", "wrongtype", "nested-missing"}
	names := []string{"tasks.yaml", "taskctl.yaml"}
	h.Par(len(kinds)*len(names), 8, func(i int) {
		kind, name := kinds[i%len(kinds)], names[i/len(kinds)]
		dir := caseDir(c, fmt.Sprintf("c17d.%d", i))
		defer os.RemoveAll(dir)
		real, _ := filepath.EvalSymlinks(dir)
		home, proj := real+"/home", real+"/proj"
		h.WriteFile(home+"/.taskctl/config.yaml", "tasks:\n  global-task:\n    command: [\"true\"]\n")
		h.WriteFile(proj+"/inc/ok.yaml", "tasks:\n  ok-task:\n    command: [\"true\"]\n")
		imp := "inc/missing.yaml"
		switch kind {
		case "missing-directory":
			imp = "no-such-dir"
		case "syntax":
			imp = "inc/bad.yaml"
			h.WriteFile(proj+"/inc/bad.yaml", "tasks: [unclosed\n")
		case "wrongtype":
			imp = "inc/bad.yaml"
			h.WriteFile(proj+"/inc/bad.yaml", "tasks: 5\n")
		case "nested-missing":
			imp = "inc/mid.yaml"
			h.WriteFile(proj+"/inc/mid.yaml", "import: [\"gone.yaml\"]\ntasks:\n  mid-task:\n    command: [\"true\"]\n")
		}
		h.WriteFile(proj+"/"+name, "import: [\"inc/ok.yaml\", \""+imp+"\"]\ntasks:\n  project-task:\n    command: [\"true\"]\n")
		for _, argv := range [][]string{{"list"}, {"-o", "raw", "global-task"}} {
			res := tc{Dir: proj, Home: home, Timeout: 15 * time.Second}.run(c, argv...)
			c.Eval(1)
			cas := map[string]interface{}{"project_file": name, "broken_import": kind, "argv": argv, "exit": res.Exit, "stdout": clip(string(res.Stdout), 400), "stderr": clip(stripANSI(string(res.Stderr)), 400)}
			if crashed, how := res.Crashed(); crashed {
				c.Violate("cli-crash/"+h.TopFrame(string(res.Stderr)), "taskctl died: "+how, cas)
				return
			}
			if res.Exit == 0 {
				c.Violate("broken-import-accepted/"+kind+"/discovered-project-file", fmt.Sprintf("`taskctl %s` in a project whose %s imports a %s entry exits 0 (the project file was dropped, the global configuration used alone)", strings.Join(argv, " "), name, kind), cas)
			}
		}
		c.Count("discovered_project_cases", 1)
		c.Nontrivial("discovered" + kind + name)
	})
}

// c17brokenGlobal: the global configuration is part of what is loaded: when it (or one of its imports) is broken the
// load fails; a file it shares with the project is not lost on the way.
func c17brokenGlobal(c *h.Ctx) {
	kinds := []string{"global-syntax", "global-import-missing-after-shared", "global-import-broken-after-shared"}
	h.Par(len(kinds), 3, func(i int) {
		kind := kinds[i]
		dir := caseDir(c, fmt.Sprintf("c17bg.%d", i))
		defer os.RemoveAll(dir)
		real, _ := filepath.EvalSymlinks(dir)
		home, proj := real+"/home", real+"/proj"
		h.WriteFile(real+"/shared/common.yaml", "tasks:\n  common:\n    command: [\"true\"]\n")
		g := "tasks:\n  global-task:\n    command: [\"true\"]\n"
		switch kind {
		case "global-syntax":
			g = "tasks: [unclosed\n"
		case "global-import-missing-after-shared":
			g = "import: [\"" + real + "/shared/common.yaml\", \"" + real + "/shared/gone.yaml\"]\n" + g
		case "global-import-broken-after-shared":
			h.WriteFile(real+"/shared/bad.yaml", "tasks: [unclosed\n")
			g = "import: [\"" + real + "/shared/common.yaml\", \"" + real + "/shared/bad.yaml\"]\n" + g
		}
		h.WriteFile(home+"/.taskctl/config.yaml", g)
		h.WriteFile(proj+"/tasks.yaml", "import: [\"../shared/common.yaml\"]\ntasks:\n  project-task:\n    command: [\"true\"]\n")
		res := tc{Dir: proj, Home: home, Timeout: 15 * time.Second}.run(c, "list", "tasks")
		c.Eval(1)
		cas := map[string]interface{}{"global": g, "kind": kind, "exit": res.Exit, "stdout": clip(string(res.Stdout), 300), "stderr": clip(stripANSI(string(res.Stderr)), 400)}
		if crashed, how := res.Crashed(); crashed {
			c.Violate("cli-crash/"+h.TopFrame(string(res.Stderr)), "taskctl died: "+how, cas)
			return
		}
		if res.Exit == 0 {
			c.Violate("broken-import-accepted/"+kind, "a broken global configuration (or a broken import of it) was tolerated: `taskctl list tasks` exits 0 with "+clip(strings.Join(lines(string(res.Stdout)), " "), 200), cas)
		}
		c.Nontrivial("brokenglobal" + kind)
	})
}

func init() { checks["C17"] = checkDef{"exploration", c17} }
