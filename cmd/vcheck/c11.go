package main

import (
	"time"

	"verif/internal/h"
)

func c11(c *h.Ctx) {
	c.Rule = "in-process real scheduler + TaskRunner: producers `cat` prepared files (empty, no trailing newline, multi-line, UTF-8, up to 64 KiB, random printable) over 1..3 commands x 0..2 variations, task names over printable ASCII, with/without exportAs, optional allowed failure; 1..3 consumers (directly or through an intermediate stage) dump the derived variable with printenv; .Output chaining; plus recorded call/return histories of producer(write)/consumer(read) runs on two shared variable names checked with porcupine against a per-key register; race-detector pass. non-trivial = distinct (name, sizes, arrangement) cases and histories with >=6 operations"
	c.Assumptions = []string{"stderr is not part of the captured output", "names whose derived variable collides with another task's are not generated in the exactness part (collisions are what the history part is about)", "porcupine checker timeout (60 s) counts as inconclusive"}
	anchors := []string{"pkg/runner/runner.go", "pkg/output/output.go", "pkg/executor/executor.go", "pkg/scheduler/scheduler.go", "pkg/variables/variables.go"}
	runWorkers(c, workerOpts{Mode: "output", Shards: 8, Timeout: 20 * time.Minute})
	runWorkers(c, workerOpts{Mode: "output", Race: true, Shards: 8, Timeout: 20 * time.Minute, Anchors: anchors})
}

func init() { checks["C11"] = checkDef{"exploration", c11} }
