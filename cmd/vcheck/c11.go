package main

import (
	"fmt"
	"os"
	"path/filepath"
	"strings"
	"time"

	"verif/internal/gen"
	"verif/internal/h"
)

func c11(c *h.Ctx) {
	c.Rule = "in-process real scheduler + TaskRunner: producers `cat` prepared files (empty, no trailing newline, multi-line, UTF-8, up to 64 KiB, random printable) over 1..3 commands x 0..4 variations, task names over printable ASCII, with/without exportAs, optional allowed failure; 1..3 consumers (directly or through an intermediate stage) dump the derived variable with printenv; .Output chaining; plus recorded call/return histories of producer(write)/consumer(read) runs on two shared variable names checked with porcupine against a per-key register; race-detector pass. non-trivial = distinct (name, sizes, arrangement) cases and histories with >=6 operations"
	c.Assumptions = []string{"stderr is not part of the captured output", "names whose derived variable collides with another task's are not generated in the exactness part (collisions are what the history part is about)", "porcupine checker timeout (60 s) counts as inconclusive"}
	anchors := []string{"pkg/runner/runner.go", "pkg/output/output.go", "pkg/executor/executor.go", "pkg/scheduler/scheduler.go", "pkg/variables/variables.go"}
	runWorkers(c, workerOpts{Mode: "output", Shards: 8, Timeout: 20 * time.Minute})
	runWorkers(c, workerOpts{Mode: "output", Race: true, Shards: 8, Timeout: 20 * time.Minute, Anchors: anchors})
	c11cli(c)
}

// c11cli: the same hand-off through the binary; task names come from (quoted) YAML keys.
func c11cli(c *h.Ctx) {
	names := []string{"build", "lint:go", "my-task", "a.b", "x y", "1st", "UPPER", "mixedCase", "t@sk", "a/b", "dollar$", "paren(1)", "q?", "semi;colon", "tilde~", "plus+", "eq=sign", "hash#1", "quote'", "back\\slash", "brace{}", "star*", "pipe|", "amp&", "comma,", "percent%", "caret^", "bang!", "lt<gt>", "bracket[0]"}
	n := c.N(len(names), 400)
	h.Par(n, 16, func(i int) {
		r := h.NewRand(c.Seed*911+int64(i), "c11cli")
		name := names[i%len(names)]
		if i >= len(names) {
			var b strings.Builder
			for k := 0; k < r.Range(1, 12); k++ {
				b.WriteByte(byte(r.Range(33, 126)))
			}
			name = b.String()
		}
		dir := caseDir(c, fmt.Sprintf("c11.%d", i))
		defer os.RemoveAll(dir)
		real, _ := filepath.EvalSymlinks(dir)
		long := strings.Repeat("0123456789abcdef", 330) // more than any internal buffer holds
		content := []string{"single line\n", "two\nlines\n", "no trailing newline", "", "unicode żółć ✓\n", "with {{ braces }} inside\n",
			"short\n" + long[:2000] + "\x1b[31m" + long[2000:] + "\x1b[0m tail\nlast\n", long + long + "\n",
			// output that happens to be valid template syntax over known names, literals, comments
			"{{ .Root }}\n", "x {{ \"quoted\" }} y\n", "{{/* a comment */}}kept\n", "{{ .Args }}|{{ .TempDir }}\n"}[r.Intn(12)]
		h.WriteFile(real+"/content", content)
		exportAs := ""
		if r.Chance(35) {
			// the name given with exportAs is used as given, whatever characters it has
			exportAs = []string{"MY_EXPORT", "MY_EXPORT", "app.version", "build-id", "Mixed.Case-1"}[r.Intn(5)]
		}
		varName := exportAs
		if varName == "" {
			var b strings.Builder
			for _, ch := range strings.ToUpper(name) + "_OUTPUT" {
				if ch >= 'A' && ch <= 'Z' || ch >= 'a' && ch <= 'z' || ch >= '0' && ch <= '9' || ch == '_' {
					b.WriteRune(ch)
				} else {
					b.WriteByte('_')
				}
			}
			varName = b.String()
		}
		prod := gen.OM{{K: "command", V: []interface{}{"cat '" + real + "/content'"}}}
		if exportAs != "" {
			prod.Set("exportAs", exportAs)
		}
		// hooks that print are not part of what the task's commands wrote; the log level and the output format do not
		// change what is handed on
		hooks := r.Chance(40)
		if hooks {
			prod.Set("before", []interface{}{"echo preparing", "echo still-preparing 1>&2"})
			prod.Set("after", []interface{}{"echo cleaning-up"})
		}
		if r.Chance(25) {
			// an interactive producer (it may read the terminal; what it writes is still its output)
			prod.Set("interactive", true)
		}
		ctxHooks := r.Chance(25)
		if ctxHooks {
			prod.Set("context", "noisy")
		}
		cons := gen.OM{{K: "command", V: []interface{}{fmt.Sprintf("printenv '%s' > '%s/got'; true", varName, real)}}}
		cfg := gen.OM{{K: "tasks", V: gen.OM{{K: name, V: prod}, {K: "the-consumer", V: cons}}},
			{K: "pipelines", V: gen.OM{{K: "p", V: []interface{}{gen.OM{{K: "name", V: "produce"}, {K: "task", V: name}}, gen.OM{{K: "name", V: "consume"}, {K: "task", V: "the-consumer"}, {K: "depends_on", V: []interface{}{"produce"}}}}}}}}
		if ctxHooks {
			cfg = append(gen.OM{{K: "contexts", V: gen.OM{{K: "noisy", V: gen.OM{{K: "up", V: []interface{}{"echo context-up"}}, {K: "before", V: []interface{}{"echo context-before"}}, {K: "after", V: []interface{}{"echo context-after"}}}}}}}, cfg...)
		}
		argv := []string{"-o", []string{"raw", "raw", "prefixed"}[r.Intn(3)]}
		if i%6 == 1 {
			// a long coloured line written by an external program, decorated: what is handed on is still what was written
			argv = []string{"-o", "prefixed"}
			content = "short\n" + long[:2000] + "\x1b[31m" + long[2000:] + "\x1b[0m tail\nlast\n"
			h.WriteFile(real+"/content", content)
		}
		if i%6 == 3 {
			// one very long line without a line break, written in ONE piece by a builtin of the interpreter (a program
			// would be copied through in smaller chunks), at and beyond 64 KiB (below the 128 KiB the kernel accepts for one environment string), raw and prefixed
			content = strings.Repeat("0123456789abcdef", 4096+[]int{0, 30, 2000}[(i/6)%3])
			if (i/18)%2 == 1 {
				content = content[:len(content)-1]
			}
			h.WriteFile(real+"/content", content)
			prod.Set("command", []interface{}{"printf '%s' \"$(cat '" + real + "/content')\""})
			cfg.Set("tasks", gen.OM{{K: name, V: prod}, {K: "the-consumer", V: cons}})
			argv = []string{"-o", []string{"prefixed", "raw"}[(i/6)%2]}
			c.Count("single_write_long_line_cases", 1)
		}
		var env []string
		switch r.Intn(6) {
		case 0:
			argv = append([]string{"-d"}, argv...)
		case 1:
			env = append(env, "TASKCTL_DEBUG=true")
		case 2:
			cfg = append(gen.OM{{K: "debug", V: true}}, cfg...)
		}
		h.WriteFile(real+"/tasks.yaml", gen.YAML(cfg))
		res := tc{Dir: real, Env: env}.run(c, append(argv, "p")...)
		c.Eval(1)
		got := h.ReadFile(real + "/got")
		cas := map[string]interface{}{"yaml": gen.YAML(cfg), "argv": argv, "env": env, "task_name": name, "variable": varName, "content": content, "consumer_saw": got, "exit": res.Exit, "stderr": tail(stripANSI(string(res.Stderr)), 400)}
		if crashed, how := res.Crashed(); crashed {
			c.Violate("cli-crash/"+h.TopFrame(string(res.Stderr)), "taskctl died: "+how, cas)
			return
		}
		if res.Exit != 0 {
			c.Violate("cli-pipeline-failed", fmt.Sprintf("producer %q -> consumer pipeline failed: %s", name, tail(stripANSI(string(res.Stderr)), 200)), cas)
			return
		}
		if got != content+"\n" {
			c.Violate("cli-dependant-sees-wrong-output", fmt.Sprintf("task %q: the dependant read %q from $%s, the producer wrote %q", name, got, varName, content), cas)
		}
		c.Count("cli_handoffs", 1)
		c.Nontrivial("cli" + name + content + exportAs + fmt.Sprint(hooks, ctxHooks, argv, env))
	})
}

func init() { checks["C11"] = checkDef{"exploration", c11} }
