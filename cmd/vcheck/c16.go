package main

import (
	"encoding/json"
	"fmt"
	"net"
	"net/http"
	"os"
	"path/filepath"
	"sort"
	"strings"
	"sync"
	"time"

	toml "github.com/pelletier/go-toml"
	yaml "gopkg.in/yaml.v2"

	"verif/internal/gen"
	"verif/internal/h"
)

type c16cfg struct {
	tree      gen.OM
	imported  gen.OM // content of the imported file (nil = no import)
	importSub bool   // the imported file lives in a sub-directory
	tasks     []string
	pipelines []string
	// pipelines whose trace is not determined by the configuration: a stage that may fail is not ordered
	// with respect to some other stage, so what the others have written when the run is cancelled depends
	// on the schedule. Only the exit status of such a run is compared.
	racy map[string]bool
	// importDir: the configuration also imports the directory "frags", which holds one fragment per format
	importDir bool
}

func strOrList(r *h.Rand, items ...string) interface{} {
	if len(items) == 1 && r.Bool() {
		return items[0]
	}
	l := make([]interface{}, len(items))
	for i := range items {
		l[i] = items[i]
	}
	return l
}

func weakScalar(r *h.Rand) interface{} {
	switch r.Intn(6) {
	case 0:
		if r.Chance(40) {
			return []int{20240917, 1048576, 4294967296, 1700000000, 10000000}[r.Intn(5)] // seven and more digits
		}
		return r.Range(0, 5000)
	case 1:
		return r.Bool()
	case 2:
		if r.Chance(30) {
			// whole numbers written with an exponent, at and beyond the 64-bit integer range: a float in all three formats
			return []float64{1e19, 1e21, 9223372036854775808, 1.8446744073709552e19, 1e15, -1e19}[r.Intn(6)]
		}
		return float64(r.Range(1, 99)) + 0.5
	case 3:
		// text that looks like syntax of one of the formats (comment openers and closers, a comma before a bracket,
		// a hash, a key separator): inside a string it is data in all three
		return []string{"pkg/**/*.go", "a/*b", "x*/y", "[a,b,]", "{k:v,}", "//c", "#h", "a=b", "k:v", "dist/*,*/"}[r.Intn(10)] + fmt.Sprint(r.Intn(10))
	default:
		return fmt.Sprintf("v%d", r.Intn(1000))
	}
}

func genC16(r *h.Rand) c16cfg {
	var cfg c16cfg
	tok := func(s string) string { return fmt.Sprintf("printf \"%s\\n\" >> \"$TRACE\"", s) }
	nctx := r.Intn(3)
	ctxs := gen.OM{}
	var ctxNames []string
	for i := 0; i < nctx; i++ {
		name := fmt.Sprintf("cx%d", i)
		ctxNames = append(ctxNames, name)
		c := gen.OM{}
		if r.Bool() {
			c.Set("env", gen.OM{{K: "CXE", V: weakScalar(r)}, {K: "CX_" + name, V: "ctx"}})
		}
		if r.Chance(40) {
			c.Set("up", strOrList(r, tok("up:"+name)))
		}
		if r.Chance(40) {
			c.Set("down", strOrList(r, tok("down:"+name)))
		}
		if r.Chance(40) {
			c.Set("before", strOrList(r, tok("cb:"+name)))
		}
		if r.Chance(40) {
			c.Set("after", strOrList(r, tok("ca:"+name)))
		}
		if r.Chance(30) {
			c.Set("executable", gen.OM{{K: "bin", V: "/bin/sh"}, {K: "args", V: []interface{}{"-c"}}})
			c.Set("quote", "'")
		}
		if r.Chance(30) {
			c.Set("dir", "sub")
		}
		if r.Chance(30) {
			c.Set("variables", gen.OM{{K: "CXV", V: "cxv"}})
		}
		ctxs.Set(name, c)
	}
	tasks := gen.OM{}
	nt := r.Range(1, 5)
	for i := 0; i < nt; i++ {
		name := fmt.Sprintf("t%d", i)
		cfg.tasks = append(cfg.tasks, name)
		t := gen.OM{}
		ncmd := r.Range(1, 3)
		var cmds []string
		for k := 0; k < ncmd; k++ {
			c := tok(fmt.Sprintf("T:%s:%d:$VAR:$E1:$CXE:{{.TV}}:[$E3]", name, k))
			if r.Chance(15) {
				c += "; exit 3"
			}
			cmds = append(cmds, c)
		}
		t.Set("command", strOrList(r, cmds...))
		t.Set("variables", gen.OM{{K: "TV", V: weakScalar(r)}})
		if r.Chance(60) {
			e := gen.OM{{K: "E1", V: weakScalar(r)}, {K: "E2", V: "two words"}}
			if r.Chance(40) {
				// strings that end in (or contain) line breaks are data too
				e.Set("E3", []string{"ends with a break\n", "two\nlines", "\nleading", "trailing blank \n\n", "rocket \U0001F680 a/b/c \u00e9t\u00e9", "</script> & a/b"}[r.Intn(6)])
			}
			t.Set("env", e)
		}
		if r.Chance(30) {
			t.Set("before", strOrList(r, tok("tb:"+name)))
		}
		if r.Chance(30) {
			t.Set("after", strOrList(r, tok("ta:"+name)))
		}
		if r.Chance(30) {
			var vs []interface{}
			for k := 0; k < r.Range(1, 3); k++ {
				vs = append(vs, gen.OM{{K: "VAR", V: weakScalar(r)}})
			}
			t.Set("variations", vs)
		}
		if r.Chance(30) {
			t.Set("dir", "sub")
		}
		if r.Chance(40) {
			switch r.Intn(3) {
			case 0:
				t.Set("timeout", "10s")
			case 1:
				t.Set("timeout", "1m30s")
			default:
				t.Set("timeout", 20000000000)
			}
		}
		if r.Chance(40) {
			t.Set("allow_failure", r.Bool())
		}
		if r.Chance(25) {
			t.Set("condition", []string{"true", "false", "test 1 = 1"}[r.Intn(3)])
		}
		if len(ctxNames) > 0 && r.Chance(60) {
			t.Set("context", ctxNames[r.Intn(len(ctxNames))])
		}
		if r.Chance(20) {
			t.Set("exportAs", "EXPORTED_"+name)
		}
		if r.Chance(6) {
			// one very long line (a description of 70 KiB): more than a line-oriented reader's default buffer
			t.Set("description", "long "+strings.Repeat("0123456789", 7000)+" end")
		} else if r.Chance(40) {
			t.Set("description", "does "+name+[]string{"", " /* quietly */", " (see docs/**/*.md, */README)", " [fast,]", " // twice", " # not a comment"}[r.Intn(6)])
		}
		if r.Chance(15) {
			t.Set("name", "renamed-"+name)
		}
		if r.Chance(20) {
			t.Set("env_file", "vars.env")
		}
		if r.Chance(20) {
			t.Set("interactive", false)
		}
		tasks.Set(name, t)
	}
	pipes := gen.OM{}
	np := r.Intn(3)
	cfg.racy = map[string]bool{}
	mayFailTask := map[string]bool{}
	for _, kv := range tasks {
		t := kv.V.(gen.OM)
		cv, _ := t.Get("command")
		mayFailTask[kv.K] = strings.Contains(fmt.Sprint(cv), "exit 3")
	}
	mayFailPipe := map[string]bool{}
	for i := 0; i < np; i++ {
		pname := fmt.Sprintf("p%d", i)
		cfg.pipelines = append(cfg.pipelines, pname)
		var stages []interface{}
		var names []string
		ns := r.Range(1, 4)
		anc := map[string]map[string]bool{} // stage -> every stage it is (transitively) after
		mayFail := map[string]bool{}
		for k := 0; k < ns; k++ {
			s := gen.OM{}
			sname := fmt.Sprintf("s%d", k)
			s.Set("name", sname)
			if i > 0 && k == 0 && r.Chance(40) {
				s.Set("pipeline", "p0")
				mayFail[sname] = mayFailPipe["p0"]
				if cfg.racy["p0"] {
					cfg.racy[pname] = true
				}
			} else {
				tn := cfg.tasks[r.Intn(len(cfg.tasks))]
				s.Set("task", tn)
				mayFail[sname] = mayFailTask[tn]
			}
			var deps []string
			anc[sname] = map[string]bool{}
			for _, p := range names {
				if r.Chance(50) {
					deps = append(deps, p)
					anc[sname][p] = true
					for a := range anc[p] {
						anc[sname][a] = true
					}
				}
			}
			if len(deps) > 0 {
				s.Set("depends_on", strOrList(r, deps...))
			}
			if r.Chance(30) {
				s.Set("allow_failure", r.Bool())
			}
			if r.Chance(20) {
				s.Set("condition", []string{"/bin/true", "/bin/false"}[r.Intn(2)])
			}
			if r.Chance(30) {
				s.Set("env", gen.OM{{K: "E1", V: weakScalar(r)}})
			}
			if r.Chance(30) {
				s.Set("variables", gen.OM{{K: "TV", V: weakScalar(r)}})
			}
			if r.Chance(15) {
				s.Set("dir", "sub")
			}
			names = append(names, sname)
			stages = append(stages, s)
		}
		for _, a := range names {
			if !mayFail[a] {
				continue
			}
			mayFailPipe[pname] = true
			for _, b := range names {
				if a != b && !anc[a][b] && !anc[b][a] {
					cfg.racy[pname] = true
				}
			}
		}
		pipes.Set(pname, stages)
	}
	top := gen.OM{}
	if r.Chance(40) {
		top.Set("variables", gen.OM{{K: "GV", V: weakScalar(r)}})
		// rendered by the first task (numbers of every size, booleans, strings)
		t0 := tasks[0].V.(gen.OM)
		t0.Set("after", strOrList(r, tok("G:t0:{{.GV}}")))
		tasks[0].V = t0
	}
	if r.Chance(30) {
		top.Set("output", []string{"raw", "prefixed"}[r.Intn(2)])
	}
	if r.Chance(20) {
		top.Set("debug", false)
	}
	if len(ctxs) > 0 {
		top.Set("contexts", ctxs)
	}
	top.Set("tasks", tasks)
	if len(pipes) > 0 {
		top.Set("pipelines", pipes)
	}
	if r.Chance(40) {
		w := gen.OM{{K: "watch", V: strOrList(r, "nothing-*.zzz")}, {K: "task", V: cfg.tasks[0]}}
		if r.Bool() {
			w.Set("events", strOrList(r, "write", "create"))
		}
		if r.Bool() {
			w.Set("exclude", strOrList(r, "x.zzz"))
		}
		top.Set("watchers", gen.OM{{K: "w0", V: w}})
	}
	if r.Chance(35) {
		it := gen.OM{{K: "command", V: strOrList(r, tok("T:imported:$WHICHENV"))}}
		if r.Bool() {
			it.Set("env_file", "vars.env") // relative: exists both next to the importer and next to the imported file
		}
		cfg.imported = gen.OM{{K: "tasks", V: gen.OM{{K: "imported-task", V: it}}}}
		if np > 0 && r.Chance(50) {
			// the imported file extends a pipeline the importing file defines (lists of both files are joined)
			cfg.imported.Set("pipelines", gen.OM{{K: "p0", V: []interface{}{gen.OM{{K: "name", V: "from-import"}, {K: "task", V: "imported-task"}}}}})
			if mayFailPipe["p0"] {
				for _, pn := range cfg.pipelines {
					cfg.racy[pn] = true // conservative: the added stage is unordered with a stage that may fail
				}
			}
		}
		if np > 0 && r.Chance(25) {
			// ... or gives a pipeline of the importing file a stage under a name that pipeline already uses (refused,
			// in the same way, whatever the format)
			cfg.imported.Set("pipelines", gen.OM{{K: "p0", V: []interface{}{gen.OM{{K: "name", V: "s0"}, {K: "task", V: "imported-task"}}}}})
		}
		if r.Chance(40) {
			// ... gives a field of a task of the importing file in the other of its two forms (string / list)
			ttasks := cfg.imported[0].V.(gen.OM)
			t0 := gen.OM{}
			if ex, ok := ttasks.Get("t0"); ok {
				t0 = ex.(gen.OM)
			}
			var other interface{} = tok("IB:t0")
			if cur, ok := tasks[0].V.(gen.OM).Get("before"); ok {
				if _, isList := cur.([]interface{}); !isList {
					other = []interface{}{tok("IB:t0"), tok("IB2:t0")}
				}
			}
			t0.Set("before", other)
			ttasks.Set("t0", t0)
			cfg.imported[0].V = ttasks
		}
		if r.Chance(40) {
			// ... and adds variations to a task of the importing file
			ttasks := cfg.imported[0].V.(gen.OM)
			t0 := gen.OM{}
			if ex, ok := ttasks.Get("t0"); ok {
				t0 = ex.(gen.OM)
			}
			t0.Set("variations", []interface{}{gen.OM{{K: "VAR", V: "from-import"}}})
			ttasks.Set("t0", t0)
			cfg.imported[0].V = ttasks
		}
		cfg.importSub = r.Bool()
		cfg.tasks = append(cfg.tasks, "imported-task")
		top.Set("import", []interface{}{"IMPORTFILE"})
	}
	if r.Chance(30) {
		cfg.importDir = true
		cfg.tasks = append(cfg.tasks, "frag-task")
		if cfg.imported == nil {
			top.Set("import", []interface{}{"IMPORTDIR"})
		}
	}
	cfg.tree = top
	return cfg
}

// normalise a decoded generic value for comparison with the abstract tree.
func normDecoded(v interface{}) interface{} {
	switch x := v.(type) {
	case map[interface{}]interface{}:
		m := map[string]interface{}{}
		for k, e := range x {
			m[fmt.Sprint(k)] = normDecoded(e)
		}
		return m
	case map[string]interface{}:
		m := map[string]interface{}{}
		for k, e := range x {
			m[k] = normDecoded(e)
		}
		return m
	case []interface{}:
		l := make([]interface{}, len(x))
		for i, e := range x {
			l[i] = normDecoded(e)
		}
		return l
	case []map[string]interface{}:
		l := make([]interface{}, len(x))
		for i, e := range x {
			l[i] = normDecoded(e)
		}
		return l
	case int:
		return float64(x)
	case int64:
		return float64(x)
	case gen.OM:
		m := map[string]interface{}{}
		for _, kv := range x {
			m[kv.K] = normDecoded(kv.V)
		}
		return m
	case []string:
		l := make([]interface{}, len(x))
		for i, e := range x {
			l[i] = e
		}
		return l
	}
	return v
}

func canon(v interface{}) string { b, _ := json.Marshal(normDecoded(v)); return string(b) }

// emitterRoundTrip: the three serialisations must decode (with the reference decoders) to the abstract tree.
func emitterRoundTrip(tree gen.OM, ys, js, ts string) string {
	want := canon(tree)
	var y map[string]interface{}
	if err := yaml.Unmarshal([]byte(ys), &y); err != nil {
		return "yaml: " + err.Error()
	}
	if canon(y) != want {
		return "yaml emitter: decoded tree differs"
	}
	var j map[string]interface{}
	if err := json.Unmarshal([]byte(js), &j); err != nil {
		return "json: " + err.Error()
	}
	if canon(j) != want {
		return "json emitter: decoded tree differs"
	}
	t, err := toml.Load(ts)
	if err != nil {
		return "toml: " + err.Error()
	}
	if canon(t.ToMap()) != want {
		return "toml emitter: decoded tree differs\n" + canon(t.ToMap()) + "\n" + want
	}
	return ""
}

func showArgs(cfg c16cfg) [][]string {
	var r [][]string
	for _, t := range cfg.tasks {
		r = append(r, []string{"show", t})
	}
	return r
}

func c16(c *h.Ctx) {
	c.Rule = "abstract configurations drawn from a grammar over every documented key of tasks, stages, contexts and watchers (string-or-list fields in both forms, durations as strings and integers, booleans, numbers where strings are expected, nested executable map, variations, same-format imports, nested pipelines), each serialised as YAML (block / flow), JSON and TOML (tables / inline tables) by emitters written in the harness and validated against yaml.v2 / encoding/json / go-toml on every generated case; observed: exit status and output of list, show <task>, graph <pipeline> (edge set) and the trace tokens + exit status of running every task and pipeline; any pairwise difference refutes. non-trivial = distinct abstract configurations"
	c.Assumptions = []string{"map-order dependent output is sorted, DOT node ids are ignored, durations in summaries and ANSI colours are not compared", "values TOML cannot express (null, heterogeneous arrays) are not generated", "tokens of a pipeline run are compared as a multiset (stages may overlap)"}
	// loop-back HTTP server for the readURL path
	var srvMu sync.Mutex
	served := map[string][2]string{}
	urlBase := ""
	if ln, err := net.Listen("tcp", "127.0.0.1:0"); err == nil {
		urlBase = "http://" + ln.Addr().String()
		go http.Serve(ln, http.HandlerFunc(func(w http.ResponseWriter, r *http.Request) {
			srvMu.Lock()
			e, ok := served[r.URL.Path]
			srvMu.Unlock()
			if !ok {
				http.NotFound(w, r)
				return
			}
			if e[0] != "" {
				w.Header().Set("Content-Type", e[0])
			} else {
				w.Header()["Content-Type"] = nil
			}
			w.Write([]byte(e[1]))
		}))
		defer ln.Close()
	} else {
		c.Count("no_loopback_listener", 1)
	}
	serve := func(path, ctype, body string) {
		srvMu.Lock()
		served[path] = [2]string{ctype, body}
		srvMu.Unlock()
	}
	n := c.N(120, 4000)
	h.Par(n, 12, func(i int) {
		r := h.NewRand(c.Seed*104729+int64(i), "c16")
		cfg := genC16(r)
		dir := caseDir(c, fmt.Sprintf("c16.%d", i))
		defer os.RemoveAll(dir)
		real, _ := filepath.EvalSymlinks(dir)
		flow, inline := r.Bool(), r.Bool()
		type fmtOut struct {
			ext  string
			text string
		}
		mk := func(ext string, tree gen.OM) string {
			switch ext {
			case ".yaml":
				if flow {
					return gen.YAMLFlow(tree)
				}
				return gen.YAML(tree)
			case ".json":
				if i%2 == 1 {
					// the way other JSON writers spell the same text: `/` escaped, everything outside ASCII as
					// \uXXXX (characters beyond the BMP as a surrogate pair)
					return gen.JSONASCII(gen.JSON(tree))
				}
				return gen.JSON(tree)
			}
			return gen.TOML(tree, inline)
		}
		if msg := emitterRoundTrip(cfg.tree, mk(".yaml", cfg.tree), mk(".json", cfg.tree), mk(".toml", cfg.tree)); msg != "" {
			c.Inconclusive("emitter self-check failed (harness defect, case skipped): " + msg)
			c.Count("emitter_selfcheck_failures", 1)
			return
		}
		c.Count("emitter_roundtrips_ok", 1)
		results := map[string]map[string]string{} // ext -> observation name -> value
		type obsSpec struct {
			sorted bool
			args   []string
		}
		specs := map[string]obsSpec{}
		files := map[string]string{}
		nrun := 0
		// observe runs one command against the file of one format and reduces what it did to a comparable string
		observe := func(ext, name string) (string, string) {
			d := real + "/" + ext[1:]
			sp := specs[name]
			nrun++
			trace := fmt.Sprintf("%s/trace.%d", d, nrun)
			res := tc{Dir: d, Env: []string{"TRACE=" + trace}, Timeout: 40 * time.Second}.run(c, append([]string{"-c", d + "/cfg" + ext}, sp.args...)...)
			c.Eval(1)
			if crashed, how := res.Crashed(); crashed {
				c.Violate("cli-crash/"+h.TopFrame(string(res.Stderr)), "taskctl died ("+ext+"): "+how, map[string]interface{}{"file": files[ext], "argv": sp.args, "stderr": tail(string(res.Stderr), 2000)})
			}
			o := strings.ReplaceAll(stripANSI(string(res.Stdout)), d, "<DIR>")
			toks := lines(h.ReadFile(trace))
			if sp.sorted {
				sort.Strings(toks)
			}
			switch {
			case strings.HasPrefix(name, "graph"):
				o = strings.Join(setKeys(parseDot(o)), ",")
			case strings.HasPrefix(name, "run"):
				o = "" // decorated output carries durations; the trace is the observation
			case name == "list-tasks":
				ls := lines(o)
				sort.Strings(ls)
				o = strings.Join(ls, "\n")
			}
			if strings.HasPrefix(name, "run-pipeline:") && cfg.racy[strings.TrimPrefix(name, "run-pipeline:")] {
				// a stage that may fail runs beside another one: what the others wrote before the cancellation
				// is a matter of schedule, not of the configuration
				c.Count("schedule_dependent_pipeline_runs", 1)
				return fmt.Sprintf("exit=%d timedout=%v\n%s\ntrace=(not determined)", res.Exit, res.TimedOut, o), stripANSI(string(res.Stderr))
			}
			return fmt.Sprintf("exit=%d timedout=%v\n%s\ntrace=%v", res.Exit, res.TimedOut, o, toks), stripANSI(string(res.Stderr))
		}
		for _, ext := range []string{".yaml", ".json", ".toml"} {
			d := real + "/" + ext[1:]
			os.MkdirAll(d+"/sub", 0o755)
			h.WriteFile(d+"/vars.env", "FROMFILE=1\nE1=fromfile\nWHICHENV=next-to-root\n")
			h.WriteFile(d+"/impdir/vars.env", "WHICHENV=next-to-imported-file\n")
			tree := cloneTree(cfg.tree).(gen.OM)
			var imports []interface{}
			if cfg.imported != nil {
				imp := "imp" + ext
				if cfg.importSub {
					imp = "impdir/imp" + ext
				}
				imports = append(imports, imp)
				h.WriteFile(d+"/"+imp, mk(ext, cfg.imported))
			}
			if cfg.importDir {
				// a directory import reads the *.yaml files of the directory whatever the format of the importing file
				imports = append(imports, "frags")
				frag := func(name string) gen.OM {
					return gen.OM{{K: "tasks", V: gen.OM{{K: name, V: gen.OM{{K: "command", V: []interface{}{"printf \"T:" + name + "\\n\" >> \"$TRACE\""}}}}}}}
				}
				h.WriteFile(d+"/frags/extra.yaml", gen.YAML(frag("frag-task")))
				h.WriteFile(d+"/frags/other.json", gen.JSON(frag("frag-json-task")))
				h.WriteFile(d+"/frags/other.toml", gen.TOML(frag("frag-toml-task"), false))
			}
			if len(imports) > 0 {
				tree.Set("import", imports)
			}
			files[ext] = mk(ext, tree)
			h.WriteFile(d+"/cfg"+ext, files[ext])
			obs := map[string]string{}
			run := func(name string, sorted bool, args ...string) {
				specs[name] = obsSpec{sorted, args}
				obs[name], _ = observe(ext, name)
			}
			run("list", false, "list")
			run("list-tasks", false, "list", "tasks")
			for _, t := range cfg.tasks {
				run("show:"+t, false, "show", t)
				run("run-task:"+t, false, "-o", "raw", t)
			}
			for _, p := range cfg.pipelines {
				run("graph:"+p, false, "graph", p)
				run("run-pipeline:"+p, true, "-o", "raw", p)
			}
			results[ext] = obs
		}
		// the same three serialisations fetched over HTTP (readURL picks the format from the content type or
		// the extension, YAML otherwise); only for configurations without imports (relative imports of a URL are
		// outside the statement)
		if urlBase != "" && cfg.imported == nil && !cfg.importDir && i%c.N(3, 1) == 0 {
			d := real + "/yaml"
			variants := []struct{ name, path, suffix, ctype, body string }{
				{"url-json-by-content-type", fmt.Sprintf("/%d/config", i), "", "application/json; charset=utf-8", mk(".json", cfg.tree)},
				{"url-json-by-extension", fmt.Sprintf("/%d/cfg.json", i), "", "text/plain", mk(".json", cfg.tree)},
				{"url-toml-by-extension", fmt.Sprintf("/%d/cfg.toml", i), "", "text/plain", mk(".toml", cfg.tree)},
				{"url-yaml-by-extension", fmt.Sprintf("/%d/cfg.yaml", i), "", "", mk(".yaml", cfg.tree)},
				{"url-yaml-by-default", fmt.Sprintf("/%d/plain", i), "", "application/octet-stream", mk(".yaml", cfg.tree)},
				// the address of a shared configuration often carries more than a path
				{"url-toml-with-query", fmt.Sprintf("/%d/q/cfg.toml", i), "?token=abc&v=1.2", "text/plain", mk(".toml", cfg.tree)},
				{"url-json-with-query-and-fragment", fmt.Sprintf("/%d/q/cfg.json", i), "?ref=main#tasks", "text/plain", mk(".json", cfg.tree)},
				{"url-yaml-with-query-naming-another-format", fmt.Sprintf("/%d/q/cfg.yaml", i), "?alt=cfg.toml", "text/plain", mk(".yaml", cfg.tree)},
			}
			for _, v := range variants {
				serve(v.path, v.ctype, v.body)
				for _, args := range append([][]string{{"list"}}, showArgs(cfg)...) {
					fetch := func() (string, h.ProcResult) {
						res := tc{Dir: d, Env: []string{"TRACE=" + d + "/trace.url"}, Timeout: 40 * time.Second}.run(c, append([]string{"-c", urlBase + v.path + v.suffix}, args...)...)
						c.Eval(1)
						c.Count("url_observations", 1)
						return fmt.Sprintf("exit=%d\n%s", res.Exit, strings.ReplaceAll(stripANSI(string(res.Stdout)), d, "<DIR>")), res
					}
					reduce := func(want string) string {
						if j := strings.Index(want, "\ntrace="); j >= 0 {
							want = want[:j]
						}
						return strings.Replace(want, " timedout=false", "", 1)
					}
					o, res := fetch()
					want := reduce(results[".yaml"][strings.Join(args, ":")])
					if o != want {
						// as for files: a difference that is one is seen again when both sides are asked again
						w2, _ := observe(".yaml", strings.Join(args, ":"))
						o2, res2 := fetch()
						if o2 == reduce(w2) {
							c.Count("differences_not_seen_again", 1)
							c.Inconclusive(fmt.Sprintf("case %d: %s differed once from the YAML file and agreed when repeated", i, v.name))
							continue
						}
						o, res, want = o2, res2, reduce(w2)
					}
					if o != want {
						c.Violate("format-difference/"+v.name, fmt.Sprintf("`%s` of the configuration fetched from %s differs from the YAML file:\n--- url\n%s\n--- yaml file\n%s\nstderr: %s", strings.Join(args, " "), v.path, clip(o, 800), clip(want, 800), clip(stripANSI(string(res.Stderr)), 300)),
							map[string]interface{}{"variant": v.name, "content_type": v.ctype, "body": v.body})
					}
				}
			}
		}
		base := results[".yaml"]
		var names []string
		for k := range base {
			names = append(names, k)
		}
		sort.Strings(names)
		for _, other := range []string{".json", ".toml"} {
			for _, k := range names {
				c.Count("observations_compared", 1)
				if results[other][k] != base[k] {
					// what a file decodes to does not vary from run to run: a difference that is one is seen again
					// when both commands are repeated. A difference that does not come back (a loaded machine, a
					// schedule) is not attributed to the format.
					confirmed := true
					var again []string
					for rep := 0; rep < 2 && confirmed; rep++ {
						a, ea := observe(".yaml", k)
						b, eb := observe(other, k)
						again = append(again, fmt.Sprintf("repeat %d\n--- yaml\n%s\nstderr: %s\n--- %s\n%s\nstderr: %s", rep+1, clip(a, 600), clip(ea, 300), other[1:], clip(b, 600), clip(eb, 300)))
						if a == b {
							confirmed = false
						}
					}
					if strings.Contains(base[k]+results[other][k]+strings.Join(again, ""), "too many open files") {
						c.Inconclusive(fmt.Sprintf("case %d: the machine ran out of file descriptors / inotify instances while comparing %s", i, k))
						continue
					}
					if !confirmed {
						c.Count("differences_not_seen_again", 1)
						c.Inconclusive(fmt.Sprintf("case %d: %s differed once between YAML and %s and agreed when repeated (not counted as a format difference):\n--- yaml\n%s\n--- %s\n%s\n%s", i, k, other[1:], clip(base[k], 600), other[1:], clip(results[other][k], 600), strings.Join(again, "\n")))
						continue
					}
					kind := k
					if j := strings.IndexByte(k, ':'); j > 0 {
						kind = k[:j]
					}
					c.Violate("format-difference/"+kind+"/yaml-vs-"+other[1:], fmt.Sprintf("%s differs between YAML and %s (and again on two repetitions):\n--- yaml\n%s\n--- %s\n%s\n%s", k, other[1:], clip(base[k], 1500), other[1:], clip(results[other][k], 1500), strings.Join(again, "\n")),
						map[string]interface{}{"yaml": files[".yaml"], other[1:]: files[other], "imported": func() string {
							if cfg.imported == nil {
								return ""
							}
							return mk(other, cfg.imported)
						}(), "observation": k, "case_index": i})
				}
			}
		}
		c.Nontrivial(canon(cfg.tree))
		if i < 2 {
			c.Sample(map[string]interface{}{"yaml": mk(".yaml", cfg.tree), "toml": mk(".toml", cfg.tree), "observations": len(names), "sample_observation": base["list"]})
		}
	})
}

func init() { checks["C16"] = checkDef{"exploration", c16} }
