package main

import (
	"sync/atomic"
	"time"

	"verif/internal/h"
)

var schedAnchors = []string{"pkg/scheduler/scheduler.go", "pkg/scheduler/graph.go", "pkg/scheduler/stage.go"}

func schedCheck(rule string) func(c *h.Ctx) {
	return func(c *h.Ctx) {
		c.Rule = rule
		c.Assumptions = []string{
			"the completion order of stages is taken over by a checker-controlled Runner; the scheduler itself is the real pkg/scheduler built with -tags verif (polling pause shortened through the hook)",
			"DAGs are enumerated up to relabelling (edge subsets of j<i); declaration-order permutations are covered by C05 and by the seeded part",
			"bounded progress: an eligible stage that does not start within 10 s (expected ~200 µs) is re-run three times before it is reported",
		}
		c.Extra("exhaustive_subspace", map[string]interface{}{"dag_stages_upto": c.N(3, 4), "outcomes_per_stage": 4, "completion_orders": "all (stateless DFS)"})
		runWorkers(c, workerOpts{Mode: "sched", Shards: 8, Timeout: time.Duration(c.N(8, 40)) * time.Minute})
		// race-detector pass on a lighter sample of the same workload
		runWorkers(c, workerOpts{Mode: "sched", Race: true, Shards: 8, Timeout: time.Duration(c.N(8, 40)) * time.Minute, Extra: []string{"light=1"}, Anchors: schedAnchors})
		runWorkers(c, workerOpts{Mode: "schedfree", Race: true, Shards: 4, Timeout: time.Duration(c.N(8, 30)) * time.Minute, Anchors: schedAnchors})
		if c.ID == "C02" {
			c02cli(c)
		}
		if c.ID == "C04" {
			c04cli(c)
		}
		if c.ID == "C03" {
			// cancelled runs on the real TaskRunner (child process each): caller Cancel and stage-condition error
			var specs []cancelSpec
			for k := 0; k <= 3; k++ {
				for _, w := range []int{1, 2} {
					specs = append(specs, cancelSpec{K: k, W: w, Mode: "pipeline", Point: "cond-error", Cancels: "once", Via: "cond", Cmd: "sleep"})
					specs = append(specs, cancelSpec{K: k, W: w, Mode: "pipeline", Point: "during-command", Cancels: "once", Via: "scheduler", Cmd: "sleep"})
				}
				specs = append(specs, cancelSpec{K: k, W: 0, Mode: "pipeline", Point: "after-finished", Cancels: "once", Via: "scheduler", Cmd: "sleep"})
				// the pipeline included by one / by two stages of an outer pipeline: the condition error is met by nested loops
				specs = append(specs, cancelSpec{K: k, W: 1, Mode: "pipeline", Point: "cond-error", Cancels: "once", Via: "cond", Cmd: "sleep", Nested: true})
				specs = append(specs, cancelSpec{K: k, W: 2, Mode: "pipeline", Point: "cond-error", Cancels: "once", Via: "cond", Cmd: []string{"sleep", "ignore-int"}[k%2], Nested: true, Shared: true})
			}
			h.Par(len(specs), 16, func(i int) {
				specs[i].Idx = 5000 + i
				if runCancelCase(c, specs[i], false, true) == "suspect" && atomic.LoadInt32(&confirmedSlow) < 3 {
					again := 0
					for k := 0; k < 3; k++ {
						if runCancelCase(c, specs[i], false, false) == "suspect" {
							again++
						}
					}
					if again == 3 {
						atomic.AddInt32(&confirmedSlow, 1)
						c.Violate("cancelled-run-did-not-return/real-runner", "cancelled pipeline on the real TaskRunner exceeded its bound four times", specs[i])
					}
				}
			})
		}
	}
}

func init() {
	checks["C01"] = checkDef{"exploration", schedCheck("every DAG on <=3 (quick) / <=4 (thorough) stages x 4^n outcome assignments x every completion order (DFS over which parked task returns next), seeded DAGs of 5..8 stages, nested pipelines, permuted declaration order; non-trivial = distinct (graph, outcomes, completion order) with at least one dependency edge")}
	checks["C02"] = checkDef{"exploration", schedCheck("same executions as C01; oracle = reference model of the statement + agreement of all completion orders of one configuration; non-trivial = distinct (graph, outcomes, order) with >=2 stages and at least one failing / allowed-failing / skipped stage")}
	checks["C03"] = checkDef{"exploration", schedCheck("same executions as C01 plus runs cancelled (caller Cancel / stage-condition error) at every explorer state; oracle = exactly-once counts at the runner, no stage left Waiting/Running, Schedule and Cancel return; non-trivial = distinct executions with >=2 stages")}
	checks["C04"] = checkDef{"exploration", schedCheck("same executions as C01; at every quiescent point the set of tasks parked in the controlled runner must contain the model's eligible set; plus real-runner shell barriers; non-trivial = distinct executions in which >=2 stages were in flight together")}
}
