package main

import (
	"fmt"
	"os"
	"strings"
	"time"

	"verif/internal/gen"
	"verif/internal/h"
)

// c02cli: through the binary, a three-stage chain first -> second -> third plus an independent stage; `first`
// fails in one of several ways (a command, the before-hook, the timeout, a missing context) and allow_failure is
// given on the task, on the stage, on both or on neither. The statement decides who runs and what the run reports:
// a failing COMMAND of a task that allows failure is no failure of the stage; every other failure of the task is
// one, and only the STAGE's allow_failure lets the dependants go on.
func c02cli(c *h.Ctx) {
	type cc struct {
		how                   string
		taskAllow, stageAllow bool
	}
	var cases []cc
	for _, how := range []string{"command", "before", "timeout", "none"} {
		for _, ta := range []bool{false, true} {
			for _, sa := range []bool{false, true} {
				cases = append(cases, cc{how, ta, sa})
			}
		}
	}
	dir := caseDir(c, "c02cli")
	defer os.RemoveAll(dir)
	h.Par(len(cases), 8, func(i int) {
		k := cases[i]
		d := fmt.Sprintf("%s/%d", dir, i)
		os.MkdirAll(d, 0o755)
		trace := d + "/trace"
		tok := func(s string) string { return fmt.Sprintf("printf '%s\\n' >> '%s'", s, trace) }
		first := gen.OM{{K: "command", V: []interface{}{tok("first")}}, {K: "allow_failure", V: k.taskAllow}}
		switch k.how {
		case "command":
			first.Set("command", []interface{}{tok("first") + "; exit 3"})
		case "before":
			first.Set("before", []interface{}{"exit 2"})
		case "timeout":
			first.Set("command", []interface{}{tok("first") + "; sh -c 'exec sleep 20'"})
			first.Set("timeout", "300ms")
		}
		stage1 := gen.OM{{K: "name", V: "first"}, {K: "task", V: "first"}}
		if k.stageAllow {
			stage1.Set("allow_failure", true)
		}
		cfg := gen.OM{{K: "tasks", V: gen.OM{{K: "first", V: first}, {K: "second", V: gen.OM{{K: "command", V: []interface{}{tok("second")}}}},
			{K: "third", V: gen.OM{{K: "command", V: []interface{}{tok("third")}}}}, {K: "aside", V: gen.OM{{K: "command", V: []interface{}{tok("aside")}}}}}},
			{K: "pipelines", V: gen.OM{{K: "p", V: []interface{}{stage1,
				gen.OM{{K: "name", V: "second"}, {K: "task", V: "second"}, {K: "depends_on", V: []interface{}{"first"}}},
				gen.OM{{K: "name", V: "third"}, {K: "task", V: "third"}, {K: "depends_on", V: []interface{}{"second"}}},
				gen.OM{{K: "name", V: "aside"}, {K: "task", V: "aside"}}}}}}}
		h.WriteFile(d+"/tasks.yaml", gen.YAML(cfg))
		res := tc{Dir: d, Timeout: 60 * time.Second}.run(c, "-o", "raw", "p")
		c.Eval(1)
		got := map[string]bool{}
		for _, t := range strings.Fields(h.ReadFile(trace)) {
			got[t] = true
		}
		stageFails := k.how == "before" || k.how == "timeout" || (k.how == "command" && !k.taskAllow)
		blocked := stageFails && !k.stageAllow
		cas := map[string]interface{}{"yaml": gen.YAML(cfg), "first_fails_by": k.how, "task_allow_failure": k.taskAllow, "stage_allow_failure": k.stageAllow, "ran": got, "exit": res.Exit, "stderr": tail(stripANSI(string(res.Stderr)), 400)}
		if crashed, how := res.CrashedNotByStatus(); crashed {
			c.Violate("cli-crash/"+h.TopFrame(string(res.Stderr)), "taskctl died: "+how, cas)
			return
		}
		desc := fmt.Sprintf("first fails by %s, allow_failure task=%v stage=%v", k.how, k.taskAllow, k.stageAllow)
		if got["second"] == blocked || got["third"] == blocked {
			c.Violate("cli/dependants-of-failed-stage", fmt.Sprintf("%s: dependants ran second=%v third=%v, the statement requires %v", desc, got["second"], got["third"], !blocked), cas)
		}
		if !got["aside"] {
			c.Violate("cli/independent-stage-not-run", desc+": the stage that depends on nothing did not run", cas)
		}
		if (res.Exit != 0) != blocked {
			c.Violate("cli/error-flag-differs", fmt.Sprintf("%s: exit status %d, the statement requires error=%v", desc, res.Exit, blocked), cas)
		}
		c.Count("cli_failure_kinds_x_allow_failure", 1)
		c.Nontrivial(fmt.Sprint("cli", k))
	})
	// dependencies listed although other listed dependencies imply them: `a` fails, `b` (condition false) depends on
	// a, `c` depends on a AND b (and variants). A skipped stage blocks nothing, but c depends on the failed a itself.
	shapes := []struct {
		name string
		deps map[string][]string
	}{
		{"redundant-direct", map[string][]string{"b": {"a"}, "c": {"a", "b"}}},
		{"redundant-direct-reversed", map[string][]string{"b": {"a"}, "c": {"b", "a"}}},
		{"two-hops", map[string][]string{"b": {"a"}, "m": {"b"}, "c": {"m", "a"}}},
		{"only-through-skipped", map[string][]string{"b": {"a"}, "c": {"b"}}},
	}
	h.Par(len(shapes), 4, func(i int) {
		sh := shapes[i]
		d := fmt.Sprintf("%s/r%d", dir, i)
		os.MkdirAll(d, 0o755)
		trace := d + "/trace"
		tok := func(s string) string { return fmt.Sprintf("printf '%s\\n' >> '%s'", s, trace) }
		tasks := gen.OM{{K: "a", V: gen.OM{{K: "command", V: []interface{}{tok("a") + "; exit 3"}}}}}
		stages := []interface{}{gen.OM{{K: "task", V: "a"}}}
		for _, n := range []string{"b", "m", "c"} {
			deps, ok := sh.deps[n]
			if !ok {
				continue
			}
			tasks.Set(n, gen.OM{{K: "command", V: []interface{}{tok(n)}}})
			st := gen.OM{{K: "task", V: n}}
			var dl []interface{}
			for _, x := range deps {
				dl = append(dl, x)
			}
			st.Set("depends_on", dl)
			if n == "b" {
				st.Set("condition", "/bin/false")
			}
			stages = append(stages, st)
		}
		cfg := gen.OM{{K: "tasks", V: tasks}, {K: "pipelines", V: gen.OM{{K: "p", V: stages}}}}
		h.WriteFile(d+"/tasks.yaml", gen.YAML(cfg))
		res := tc{Dir: d, Timeout: 60 * time.Second}.run(c, "-o", "raw", "p")
		c.Eval(1)
		got := strings.Fields(h.ReadFile(trace))
		cas := map[string]interface{}{"yaml": gen.YAML(cfg), "ran": got, "exit": res.Exit, "stderr": tail(stripANSI(string(res.Stderr)), 400)}
		if crashed, how := res.CrashedNotByStatus(); crashed {
			c.Violate("cli-crash/"+h.TopFrame(string(res.Stderr)), "taskctl died: "+how, cas)
			return
		}
		cRan := false
		for _, g := range got {
			if g == "c" {
				cRan = true
			}
		}
		// c may run only where its one path to the failed stage leads through the skipped stage ("only-through-skipped"
		// is the don't-care of DESIGN §4 C02: Skipped or Canceled are both acceptable there)
		if cRan && sh.name != "only-through-skipped" {
			c.Violate("cli/ran-behind-failed-dependency", fmt.Sprintf("%s: stage c lists the failed stage a among its dependencies and ran all the same (ran: %v)", sh.name, got), cas)
		}
		if res.Exit == 0 {
			c.Violate("cli/error-flag-differs", fmt.Sprintf("%s: stage a failed without allow_failure, exit status 0", sh.name), cas)
		}
		c.Count("cli_redundant_dependency_shapes", 1)
		c.Nontrivial("cli-redundant" + sh.name)
	})
	// stage names as people write them ("group:step", dots, dashes, blanks), chosen so that one name is the
	// concatenation of two others: random DAGs over them, one stage fails, exactly its dependants do not run
	pool := []string{"build", "build:docker", "docker:push", "push", "docker", "build:docker:push", "a", "a:b", "b", "b:c", "c", "a:b:c", "lint.go", "lint", "go", "x-y", "x", "y", "x y"}
	h.Par(c.N(24, 300), 8, func(i int) {
		r := h.NewRand(c.Seed*7477+int64(i), "c02names")
		d := fmt.Sprintf("%s/n%d", dir, i)
		os.MkdirAll(d, 0o755)
		trace := d + "/trace"
		tok := func(s string) string { return fmt.Sprintf("printf '%%s\\n' '%s' >> '%s'", s, trace) }
		var names []string
		if i%3 == 0 {
			// the four names whose edges read alike when written from:to
			names = [][]string{{"build", "docker:push", "build:docker", "push"}, {"a", "b:c", "a:b", "c"}, {"build:docker", "push", "build", "docker:push"}}[(i/3)%3]
		} else {
			for _, k := range r.Perm(len(pool))[:r.Range(4, 6)] {
				names = append(names, pool[k])
			}
		}
		n := len(names)
		deps := make([][]int, n)
		if i%3 == 0 {
			deps[1], deps[3] = []int{0}, []int{2}
		} else {
			for j := 1; j < n; j++ {
				for k := 0; k < j; k++ {
					if r.Chance(40) {
						deps[j] = append(deps[j], k)
					}
				}
			}
		}
		fail := r.Intn(n)
		if i%3 == 0 {
			fail = 2
		}
		blocked := make([]bool, n)
		for j := 0; j < n; j++ { // indices are in topological order
			for _, k := range deps[j] {
				if k == fail || blocked[k] {
					blocked[j] = true
				}
			}
		}
		tasks := gen.OM{}
		stages := make([]interface{}, 0, n)
		order := r.Perm(n)
		if i%3 == 0 {
			order = []int{0, 1, 2, 3}
		}
		for _, j := range order {
			cmd := tok(names[j])
			if j == fail {
				cmd = "sleep 0.3; " + cmd + "; exit 3"
			}
			tasks.Set(names[j], gen.OM{{K: "command", V: []interface{}{cmd}}})
			st := gen.OM{{K: "name", V: names[j]}, {K: "task", V: names[j]}}
			var dl []interface{}
			for _, k := range deps[j] {
				dl = append(dl, names[k])
			}
			if len(dl) > 0 {
				st.Set("depends_on", dl)
			}
			stages = append(stages, st)
		}
		cfg := gen.OM{{K: "tasks", V: tasks}, {K: "pipelines", V: gen.OM{{K: "p", V: stages}}}}
		h.WriteFile(d+"/tasks.yaml", gen.YAML(cfg))
		res := tc{Dir: d, Timeout: 60 * time.Second}.run(c, "-o", "raw", "p")
		c.Eval(1)
		got := lines(h.ReadFile(trace))
		cas := map[string]interface{}{"yaml": gen.YAML(cfg), "ran": got, "fails": names[fail], "exit": res.Exit, "stderr": tail(stripANSI(string(res.Stderr)), 400)}
		if crashed, how := res.CrashedNotByStatus(); crashed {
			c.Violate("cli-crash/"+h.TopFrame(string(res.Stderr)), "taskctl died: "+how, cas)
			return
		}
		ran := map[string]int{}
		for _, g := range got {
			ran[g]++
		}
		for j := 0; j < n; j++ {
			switch {
			case blocked[j] && ran[names[j]] > 0:
				c.Violate("cli/ran-behind-failed-dependency", fmt.Sprintf("stage %q depends (transitively) on the failed stage %q and ran all the same (ran: %v)", names[j], names[fail], got), cas)
			case !blocked[j] && ran[names[j]] != 1:
				c.Violate("cli/independent-stage-did-not-run", fmt.Sprintf("stage %q does not depend on the failed stage %q; it ran %d times (ran: %v)", names[j], names[fail], ran[names[j]], got), cas)
			}
		}
		if res.Exit == 0 {
			c.Violate("cli/error-flag-differs", fmt.Sprintf("stage %q failed without allow_failure, exit status 0", names[fail]), cas)
		}
		c.Count("cli_punctuated_name_graphs", 1)
		c.Nontrivial("cli-names" + gen.YAML(cfg))
	})
}
