package main

import (
	"fmt"
	"os"
	"time"

	"verif/internal/gen"
	"verif/internal/h"
)

// c04cli: barrier pipelines written as YAML and run through the binary - the dependency edges are the declared
// ones, nothing more: stages that the file leaves independent wait for each other to be running.
func c04cli(c *h.Ctx) {
	dir := caseDir(c, "c04cli")
	defer os.RemoveAll(dir)
	shapes := []string{"task-shared-by-named-and-unnamed-stage", "three-independent", "diamond", "interactive-and-plain", "unnamed-stages-of-distinct-tasks", "partial-lines"}
	formats := []string{"raw", "prefixed"}
	h.Par(len(shapes)*len(formats), 5, func(i int) {
		sh, format := shapes[i%len(shapes)], formats[i/len(shapes)]
		d := fmt.Sprintf("%s/%d", dir, i)
		os.MkdirAll(d, 0o755)
		mark := func(n string) string { return d + "/started." + n }
		// a command that marks its stage as started and then waits (bounded) for the others to have started
		wait := func(self string, others ...string) string {
			s := fmt.Sprintf(": > '%s'; n=0; while ! {", mark(self))
			for k, o := range others {
				if k > 0 {
					s += " &&"
				}
				s += fmt.Sprintf(" [ -e '%s' ]", mark(o))
			}
			return s + "; }; do sleep 0.01; n=$((n+1)); if [ $n -gt 1000 ]; then exit 1; fi; done"
		}
		tasks := gen.OM{}
		var stages []interface{}
		switch sh {
		case "task-shared-by-named-and-unnamed-stage":
			// `build` (unnamed stage, goes by its task's name) and `build-arm` (same task) are independent; `report`
			// depends on `build` only and build-arm waits for report
			tasks.Set("build", gen.OM{{K: "command", V: []interface{}{"if [ \"$WHO\" = arm ]; then " + wait("build-arm", "report") + "; else : > '" + mark("build") + "'; fi"}}})
			tasks.Set("report", gen.OM{{K: "command", V: []interface{}{wait("report", "build-arm")}}})
			stages = []interface{}{gen.OM{{K: "task", V: "build"}}, gen.OM{{K: "name", V: "build-arm"}, {K: "task", V: "build"}, {K: "env", V: gen.OM{{K: "WHO", V: "arm"}}}},
				gen.OM{{K: "task", V: "report"}, {K: "depends_on", V: []interface{}{"build"}}}}
		case "three-independent", "unnamed-stages-of-distinct-tasks":
			for _, n := range []string{"a", "b", "c"} {
				var others []string
				for _, o := range []string{"a", "b", "c"} {
					if o != n {
						others = append(others, o)
					}
				}
				tasks.Set(n, gen.OM{{K: "command", V: []interface{}{wait(n, others...)}}})
				if sh == "three-independent" {
					stages = append(stages, gen.OM{{K: "name", V: "stage-" + n}, {K: "task", V: n}})
				} else {
					stages = append(stages, gen.OM{{K: "task", V: n}})
				}
			}
		case "partial-lines":
			// every stage announces itself with a line it does not finish (a prompt, a progress message) before it waits
			// for the others; what a stage has or has not written holds nobody else up
			for _, n := range []string{"a", "b", "c"} {
				var others []string
				for _, o := range []string{"a", "b", "c"} {
					if o != n {
						others = append(others, o)
					}
				}
				tasks.Set(n, gen.OM{{K: "command", V: []interface{}{"printf 'working on " + n + " ... '", wait(n, others...) + "; echo finished; printf 'and a tail without a line end'"}}})
				stages = append(stages, gen.OM{{K: "name", V: "stage-" + n}, {K: "task", V: n}})
			}
		case "diamond":
			tasks.Set("top", gen.OM{{K: "command", V: []interface{}{"true"}}})
			tasks.Set("l", gen.OM{{K: "command", V: []interface{}{wait("l", "r")}}})
			tasks.Set("r", gen.OM{{K: "command", V: []interface{}{wait("r", "l")}}})
			tasks.Set("bottom", gen.OM{{K: "command", V: []interface{}{"true"}}})
			stages = []interface{}{gen.OM{{K: "task", V: "top"}}, gen.OM{{K: "task", V: "l"}, {K: "depends_on", V: "top"}}, gen.OM{{K: "task", V: "r"}, {K: "depends_on", V: []interface{}{"top"}}},
				gen.OM{{K: "task", V: "bottom"}, {K: "depends_on", V: []interface{}{"l", "r"}}}}
		case "interactive-and-plain":
			tasks.Set("asks", gen.OM{{K: "interactive", V: true}, {K: "command", V: []interface{}{wait("asks", "plain")}}})
			tasks.Set("plain", gen.OM{{K: "command", V: []interface{}{"echo starting", wait("plain", "asks"), "echo done"}}})
			stages = []interface{}{gen.OM{{K: "task", V: "asks"}}, gen.OM{{K: "task", V: "plain"}}}
		}
		cfg := gen.OM{{K: "tasks", V: tasks}, {K: "pipelines", V: gen.OM{{K: "p", V: stages}}}}
		h.WriteFile(d+"/tasks.yaml", gen.YAML(cfg))
		res := tc{Dir: d, Timeout: 60 * time.Second}.run(c, "-o", format, "p")
		c.Eval(1)
		cas := map[string]interface{}{"yaml": gen.YAML(cfg), "format": format, "exit": res.Exit, "took_ms": res.Dur.Milliseconds(), "stderr": tail(stripANSI(string(res.Stderr)), 400)}
		if crashed, how := res.CrashedNotByStatus(); crashed {
			c.Violate("cli-crash/"+h.TopFrame(string(res.Stderr)), "taskctl died: "+how, cas)
			return
		}
		if res.Exit != 0 {
			c.Violate("cli-barrier-pipeline-failed/"+sh, fmt.Sprintf("-o %s: stages the configuration leaves independent did not run at the same time (pipeline %s exits %d after %d ms)", format, sh, res.Exit, res.Dur.Milliseconds()), cas)
		}
		c.Count("cli_barrier_pipelines", 1)
		c.Nontrivial("cli" + sh + format)
	})
}
