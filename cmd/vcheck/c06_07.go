package main

import (
	"fmt"
	"os"
	"sort"
	"strings"
	"time"

	"verif/internal/gen"
	"verif/internal/h"
)

func c06(c *h.Ctx) {
	c.Rule = "exhaustive grammar: 1..3 commands x 0..3 variations x every failing subset x allow_failure x before{absent,ok,fails} x after{...} x condition{absent,true,false} (3024 shapes; failing statuses drawn from {1,2,126,127,128,255}+seeded), plus seeded tasks with 4..8 commands / <=5 variations; oracle = reference interpreter of the statement compared token by token with the trace file and with stdout; non-trivial = distinct shapes with >=2 command executions or a hook/condition"
	c.Assumptions = []string{"commands are shell builtins appending tokens to an O_APPEND trace file; a start-token + external sleep probe is added on a sample to observe non-overlap", "whether `after` runs after a failing `before` is not determined by the statement (both accepted)"}
	c.Exhaustive = true
	c.Extra("exhaustive_subspace", "the 3024-shape grammar of the quantifier; larger tasks are seeded")
	runWorkers(c, workerOpts{Mode: "task", Shards: 8, Timeout: 20 * time.Minute})
	// twelve tasks at a time on one runner (parallel stages share the runner and its compiler), also under the race detector
	anchors := []string{"pkg/runner/runner.go", "pkg/runner/compiler.go", "pkg/executor/executor.go", "pkg/task/task.go"}
	runWorkers(c, workerOpts{Mode: "taskpar", Shards: 8, Timeout: 20 * time.Minute})
	runWorkers(c, workerOpts{Mode: "taskpar", Race: true, Shards: 8, Timeout: 20 * time.Minute, Anchors: anchors})
}

func c07(c *h.Ctx) {
	c.Rule = "library: exit statuses (quick: 8 boundary + 24 seeded; thorough: all 1..255) at each of 3 command positions x allow_failure x {exit N, (exit N), sh -c, death by signal}, a third of them as pipeline stages under the real scheduler; plus the C06 grammar; CLI: every sequence of 1..3 targets from {ok1, ok2, bad, pipeline-ok, pipeline-bad} x {taskctl T.., taskctl run T.., taskctl run task T..} x with/without `-- args`; non-trivial = distinct cases containing a failing/skipped element"
	c.Assumptions = []string{"Task.Errored/ExitCode after a failing before-hook are not determined by the statement", "the numeric value of a non-zero process exit status is not examined", "CLI tokens are read from a trace file, not from decorated stdout"}
	runWorkers(c, workerOpts{Mode: "task", Shards: 8, Timeout: 20 * time.Minute})
	c07cli(c)
}

func c07cli(c *h.Ctx) {
	dir := caseDir(c, "c07cli")
	defer os.RemoveAll(dir)
	mk := func(name string, code int) gen.OM {
		return gen.OM{{K: "command", V: []interface{}{fmt.Sprintf("printf '%s\\n' >> \"$TRACE\"; exit %d", name, code)}}}
	}
	tasks := gen.OM{{K: "ok1", V: mk("ok1", 0)}, {K: "ok2", V: mk("ok2", 0)}, {K: "bad", V: mk("bad", 7)},
		{K: "pa", V: mk("pa", 0)}, {K: "pb", V: mk("pb", 0)}, {K: "pc", V: mk("pc", 3)}, {K: "pd", V: mk("pd", 0)}}
	pipes := gen.OM{
		{K: "pok", V: []interface{}{gen.OM{{K: "task", V: "pa"}}, gen.OM{{K: "task", V: "pb"}, {K: "depends_on", V: []interface{}{"pa"}}}}},
		{K: "pbad", V: []interface{}{gen.OM{{K: "task", V: "pc"}}, gen.OM{{K: "task", V: "pd"}, {K: "depends_on", V: []interface{}{"pc"}}}}},
	}
	// a pipeline whose failing stage finishes first while an independent stage succeeds later
	tasks.Set("pe", gen.OM{{K: "command", V: []interface{}{"printf 'pe\\n' >> \"$TRACE\"; exit 3"}}})
	tasks.Set("pf", gen.OM{{K: "command", V: []interface{}{"sleep 0.3; printf 'pf\\n' >> \"$TRACE\""}}})
	pipes.Set("pfan", []interface{}{gen.OM{{K: "task", V: "pe"}}, gen.OM{{K: "task", V: "pf"}}})
	cfg := gen.OM{{K: "tasks", V: tasks}, {K: "pipelines", V: pipes}}
	h.WriteFile(dir+"/tasks.yaml", gen.YAML(cfg))
	// targets that fail for a reason other than a command's exit status: the process must still exit non-zero
	// and run nothing afterwards
	tasks.Set("bad-before", gen.OM{{K: "before", V: []interface{}{"exit 2"}}, {K: "command", V: []interface{}{"printf 'bb\\n' >> \"$TRACE\""}}})
	tasks.Set("bad-template", gen.OM{{K: "command", V: []interface{}{"printf 'bt{{.NoSuchVariable}}\\n' >> \"$TRACE\""}}})
	tasks.Set("bad-timeout", gen.OM{{K: "timeout", V: "200ms"}, {K: "command", V: []interface{}{"sh -c 'exec sleep 20'", "printf 'bto\\n' >> \"$TRACE\""}}})
	tasks.Set("bad-context", gen.OM{{K: "context", V: "badup"}, {K: "command", V: []interface{}{"printf 'bc\\n' >> \"$TRACE\""}}})
	tasks.Set("bad-dir", gen.OM{{K: "dir", V: "{{.NoSuchVariable}}/x"}, {K: "command", V: []interface{}{"printf 'bd\\n' >> \"$TRACE\""}}})
	// an external command whose coloured output arrives in two writes (succeeds under every output format)
	tasks.Set("ansi-split", gen.OM{{K: "command", V: []interface{}{"sh -c 'printf \"a\\033[3\"; sleep 0.3; printf \"1mRED\\033[0m\\n\"'", "printf 'as\\n' >> \"$TRACE\""}}})
	// a failing pipeline first run through a stage that tolerates its failure, then named as a target itself
	pipes.Set("ptol", []interface{}{gen.OM{{K: "name", V: "inc"}, {K: "pipeline", V: "pbad"}, {K: "allow_failure", V: true}}})
	cfgX := gen.OM{{K: "contexts", V: gen.OM{{K: "badup", V: gen.OM{{K: "up", V: []interface{}{"exit 1"}}}}}}, {K: "tasks", V: tasks}, {K: "pipelines", V: pipes}}
	h.WriteFile(dir+"/tasks.yaml", gen.YAML(cfgX))
	type xcase struct {
		argv     []string
		want     string
		wantFail bool
	}
	var xs []xcase
	for _, b := range []string{"bad-before", "bad-template", "bad-timeout", "bad-context", "bad-dir"} {
		for _, form := range [][]string{{}, {"run"}, {"run", "task"}} {
			xs = append(xs, xcase{append(append(append([]string{"-o", "raw"}, form...), b), "ok1"), "", true})
		}
	}
	for _, f := range []string{"raw", "prefixed", "cockpit"} {
		xs = append(xs, xcase{[]string{"-o", f, "ansi-split", "ok1"}, "as ok1", false})
	}
	// global flags that change what is logged must not change what is reported
	for _, q := range [][]string{{"-q"}, {"--quiet"}, {"-d"}, {"-q", "-o", "prefixed"}} {
		xs = append(xs, xcase{append(append([]string{}, q...), "bad", "ok1"), "bad", true}, xcase{append(append([]string{}, q...), "pbad", "ok1"), "pc", true},
			xcase{append(append([]string{}, q...), "ok1", "ok2"), "ok1 ok2", false}, xcase{append(append([]string{}, q...), "run", "ok1", "bad-before", "ok2"), "ok1", true},
			xcase{append(append([]string{}, q...), "no-such-target", "ok1"), "", true})
	}
	// a command line that ends in a bare `--` (a wrapper script with no extra arguments): nothing after it, no target lost or added
	xs = append(xs, xcase{[]string{"-o", "raw", "ok1", "--"}, "ok1", false}, xcase{[]string{"-o", "raw", "ok1", "ok2", "--"}, "ok1 ok2", false},
		xcase{[]string{"-o", "raw", "run", "ok1", "--"}, "ok1", false}, xcase{[]string{"-o", "raw", "pok", "--"}, "pa pb", false}, xcase{[]string{"-o", "raw", "bad", "ok1", "--"}, "bad", true})
	xs = append(xs, xcase{[]string{"-o", "raw", "ptol", "ok1"}, "pc ok1", false}, xcase{[]string{"-o", "raw", "ptol", "pbad", "ok1"}, "pc", true}, xcase{[]string{"-o", "raw", "run", "ptol", "pbad", "ok1"}, "pc", true})
	h.Par(len(xs), 8, func(i int) {
		x := xs[i]
		trace := fmt.Sprintf("%s/trace.x%d", dir, i)
		res := tc{Dir: dir, Env: []string{"TRACE=" + trace}, Timeout: 40 * time.Second}.run(c, x.argv...)
		c.Eval(1)
		got := strings.Join(strings.Fields(h.ReadFile(trace)), " ")
		cas := map[string]interface{}{"argv": x.argv, "exit": res.Exit, "trace": got, "stderr": tail(stripANSI(string(res.Stderr)), 400)}
		if crashed, how := res.CrashedNotByStatus(); crashed {
			c.Violate("cli-crash/"+h.TopFrame(string(res.Stderr)), "taskctl died: "+how, cas)
			return
		}
		if (res.Exit != 0) != x.wantFail {
			c.Violate("cli-exit-status/"+x.argv[len(x.argv)-2], fmt.Sprintf("`taskctl %s` exited %d, the first target fails=%v", strings.Join(x.argv, " "), res.Exit, x.wantFail), cas)
		}
		if got != x.want {
			c.Violate("cli-ran-after-failed-target/"+x.argv[len(x.argv)-2], fmt.Sprintf("`taskctl %s` ran [%s], want [%s]", strings.Join(x.argv, " "), got, x.want), cas)
		}
		c.Nontrivial("x" + strings.Join(x.argv, " "))
	})
	for rep, form := range [][]string{{"pfan", "ok1"}, {"run", "pfan", "ok1"}, {"pfan"}} {
		trace := fmt.Sprintf("%s/trace.fan%d", dir, rep)
		args := append([]string{"-o", "raw"}, form...)
		res := tc{Dir: dir, Env: []string{"TRACE=" + trace}}.run(c, args...)
		c.Eval(1)
		got := strings.Fields(h.ReadFile(trace))
		sort.Strings(got)
		cas := map[string]interface{}{"argv": args, "exit": res.Exit, "trace": got}
		if strings.Join(got, " ") != "pe pf" {
			c.Violate("cli-ran-after-failed-target", fmt.Sprintf("`taskctl %s`: a stage fails first, an independent stage succeeds later: ran %v, want [pe pf] and nothing after", strings.Join(args, " "), got), cas)
		}
		if res.Exit == 0 {
			c.Violate("cli-exit-status", fmt.Sprintf("`taskctl %s` exited 0 although stage pe failed (a stage that succeeded later must not erase the failure)", strings.Join(args, " ")), cas)
		}
		c.Nontrivial("fan" + strings.Join(args, " "))
	}
	tokens := map[string][]string{"ok1": {"ok1"}, "ok2": {"ok2"}, "bad": {"bad"}, "pok": {"pa", "pb"}, "pbad": {"pc"}}
	fails := map[string]bool{"bad": true, "pbad": true}
	isTask := map[string]bool{"ok1": true, "ok2": true, "bad": true}
	names := []string{"ok1", "ok2", "bad", "pok", "pbad"}
	var seqs [][]string
	var rec func(cur []string)
	rec = func(cur []string) {
		if len(cur) > 0 {
			seqs = append(seqs, append([]string(nil), cur...))
		}
		if len(cur) == 3 {
			return
		}
		for _, n := range names {
			dup := false
			for _, x := range cur {
				if x == n {
					dup = true
				}
			}
			if !dup {
				rec(append(cur, n))
			}
		}
	}
	rec(nil)
	type job struct {
		seq    []string
		form   string
		dashes bool
	}
	var jobs []job
	rnd := c.Rand("c07cli")
	for _, s := range seqs {
		for _, form := range []string{"root", "run", "runtask"} {
			if form == "runtask" {
				ok := true
				for _, x := range s {
					if !isTask[x] {
						ok = false
					}
				}
				if !ok {
					continue
				}
			}
			for _, d := range []bool{false, true} {
				if c.Quick() && len(s) == 3 && rnd.Chance(70) {
					continue
				}
				jobs = append(jobs, job{s, form, d})
			}
		}
	}
	h.Par(len(jobs), 16, func(i int) {
		j := jobs[i]
		trace := fmt.Sprintf("%s/trace.%d", dir, i)
		args := []string{"-o", "raw"}
		switch j.form {
		case "run":
			args = append(args, "run")
		case "runtask":
			args = append(args, "run", "task")
		}
		args = append(args, j.seq...)
		if j.dashes {
			args = append(args, "--", "ok2", "x=1")
		}
		res := tc{Dir: dir, Env: []string{"TRACE=" + trace}}.run(c, args...)
		c.Eval(1)
		got := strings.Fields(h.ReadFile(trace))
		os.Remove(trace)
		var want []string
		wantFail := false
		for _, t := range j.seq {
			want = append(want, tokens[t]...)
			if fails[t] {
				wantFail = true
				break
			}
		}
		cas := map[string]interface{}{"argv": args, "exit": res.Exit, "trace": got, "want_trace": want, "stderr": tail(stripANSI(string(res.Stderr)), 400)}
		if crashed, how := res.CrashedNotByStatus(); crashed {
			c.Violate("cli-crash/"+h.TopFrame(string(res.Stderr)), "taskctl died: "+how, cas)
			return
		}
		if res.TimedOut {
			c.Inconclusive("taskctl " + strings.Join(args, " ") + " timed out")
			return
		}
		if strings.Join(got, " ") != strings.Join(want, " ") {
			sig := "cli-targets-order-or-set"
			if len(got) > len(want) {
				sig = "cli-ran-after-failed-target"
			}
			c.Violate(sig, fmt.Sprintf("`taskctl %s` ran %v, the statement requires %v", strings.Join(args, " "), got, want), cas)
		}
		if (res.Exit != 0) != wantFail {
			c.Violate("cli-exit-status", fmt.Sprintf("`taskctl %s` exited %d, targets failed=%v", strings.Join(args, " "), res.Exit, wantFail), cas)
		}
		c.Count("cli_tokens", int64(len(got)))
		if wantFail || len(j.seq) > 1 {
			c.Nontrivial("cli" + strings.Join(args, " "))
		}
		if i < 2 {
			c.Sample(cas)
		}
	})
}

func init() {
	checks["C06"] = checkDef{"exploration", c06}
	checks["C07"] = checkDef{"exploration", c07}
}
