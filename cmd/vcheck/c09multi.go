package main

import (
	"fmt"
	"os"
	"path/filepath"
	"sort"
	"strings"

	"verif/internal/gen"
	"verif/internal/h"
)

// c09multi: the precedence holds for every execution of an invocation, not only for the first one: several tasks
// (some defining nothing at all) run directly, then as parallel and chained stages of a pipeline, then directly
// again, all in ONE taskctl process. Names come from the parent environment and from the configuration; every
// execution prints all of them and is identified by text inside its own command.
func c09multi(c *h.Ctx, idx int, r *h.Rand) {
	dir := caseDir(c, fmt.Sprintf("c09m.%d", idx))
	defer os.RemoveAll(dir)
	real, _ := filepath.EvalSymlinks(dir)
	trace := real + "/trace"
	// (M0_OUTPUT is also the name under which taskctl publishes the output of task m0 to later tasks: a published
	// output sits at the bottom, like the parent environment; a context that defines the name wins)
	names := []string{"P1", "P2", "P3", "P4", "N1", "N2", "N3", "M0_OUTPUT"}
	parent := map[string]string{"P1": "parent-P1", "P2": "parent-P2", "P3": "parent-P3", "P4": "parent-P4"}
	ctxEnv := map[string]string{}
	for _, n := range names {
		if r.Chance(25) || (n == "M0_OUTPUT" && r.Chance(50)) {
			ctxEnv[n] = "ctx-" + n
		}
	}
	// one env_file shared by several tasks (some of which have an env section of their own as well)
	fileEnv := map[string]string{"N1": "file-N1", "P2": "file-P2", "N3": "file-N3"}
	h.WriteFile(real+"/shared.env", "N1=file-N1\nP2=file-P2\nN3=file-N3\n")
	nt := r.Range(3, 6)
	type tdesc struct {
		name string
		env  map[string]string
		ctx  bool
		ef   bool
	}
	var ts []tdesc
	tasks := gen.OM{}
	format, argv := "", ""
	for _, k := range append(append([]string{}, names...), "TASK_NAME", "SID") {
		format += " " + k + "=[%s]"
		argv += fmt.Sprintf(" \"$%s\"", k)
	}
	for i := 0; i < nt; i++ {
		t := tdesc{name: fmt.Sprintf("m%d", i), env: map[string]string{}}
		if r.Chance(60) { // the others define nothing at all
			for _, n := range names {
				if r.Chance(40) {
					t.env[n] = "task-" + t.name + "-" + n
				}
			}
		}
		t.ctx = len(ctxEnv) > 0 && r.Chance(40)
		t.ef = r.Chance(45)
		td := gen.OM{{K: "command", V: []interface{}{
			fmt.Sprintf("sleep 0.%02d", r.Range(1, 12)),
			fmt.Sprintf("printf 'EXE id=[%s]%s\\n'%s >> '%s'", t.name, format, argv, trace),
		}}}
		if r.Chance(50) {
			td.Set("before", []interface{}{fmt.Sprintf("sleep 0.%02d", r.Range(1, 9))})
		}
		if len(t.env) > 0 {
			td.Set("env", t.env)
		}
		if t.ctx {
			td.Set("context", "cx")
		}
		if t.ef {
			td.Set("env_file", "shared.env")
		}
		tasks.Set(t.name, td)
		ts = append(ts, t)
	}
	// pipeline: every task once as an independent stage (parallel), some a second time behind another stage
	type sdesc struct {
		id   string
		task int
		env  map[string]string
		deps []string
	}
	var ss []sdesc
	for i := range ts {
		s := sdesc{id: fmt.Sprintf("s%d", i), task: i, env: map[string]string{}}
		if r.Chance(50) {
			s.env["SID"] = s.id
			for _, n := range names {
				if r.Chance(20) {
					s.env[n] = "stage-" + s.id + "-" + n
				}
			}
		}
		ss = append(ss, s)
	}
	for k := 0; k < r.Range(0, 2); k++ {
		s := sdesc{id: fmt.Sprintf("z%d", k), task: r.Intn(nt), env: map[string]string{"SID": fmt.Sprintf("z%d", k)}, deps: []string{ss[r.Intn(nt)].id}}
		ss = append(ss, s)
	}
	var stages []interface{}
	for _, s := range ss {
		o := gen.OM{{K: "name", V: s.id}, {K: "task", V: ts[s.task].name}}
		if len(s.env) > 0 {
			o.Set("env", s.env)
		}
		if len(s.deps) > 0 {
			o.Set("depends_on", []interface{}{s.deps[0]})
		}
		stages = append(stages, o)
	}
	cfg := gen.OM{}
	if len(ctxEnv) > 0 {
		cfg.Set("contexts", gen.OM{{K: "cx", V: gen.OM{{K: "env", V: ctxEnv}}}})
	}
	cfg.Set("tasks", tasks)
	cfg.Set("pipelines", gen.OM{{K: "pp", V: stages}})
	h.WriteFile(real+"/tasks.yaml", gen.YAML(cfg))
	// targets: a few direct runs, the pipeline, direct runs again
	var targets []string
	var direct []int
	for k := 0; k < r.Range(0, 2); k++ {
		i := r.Intn(nt)
		targets = append(targets, ts[i].name)
		direct = append(direct, i)
	}
	targets = append(targets, "pp")
	for k := 0; k < r.Range(1, 2); k++ {
		i := r.Intn(nt)
		targets = append(targets, ts[i].name)
		direct = append(direct, i)
	}
	var penv []string
	for _, k := range sortedKeys(parent) {
		penv = append(penv, k+"="+parent[k])
	}
	res := tc{Dir: real, Env: penv}.run(c, append([]string{"-o", "raw"}, targets...)...)
	c.Eval(1)
	got := lines(h.ReadFile(trace))
	cas := map[string]interface{}{"yaml": gen.YAML(cfg), "targets": targets, "parent_env": parent, "trace": got, "exit": res.Exit, "stderr": tail(stripANSI(string(res.Stderr)), 500)}
	if crashed, how := res.Crashed(); crashed {
		c.Violate("cli-crash/"+h.TopFrame(string(res.Stderr)), "taskctl died: "+how, cas)
		return
	}
	if res.Exit != 0 || len(got) != len(direct)+len(ss) {
		c.Violate("env-run-failed", fmt.Sprintf("exit %d, %d executions recorded, %d expected: %s", res.Exit, len(got), len(direct)+len(ss), tail(stripANSI(string(res.Stderr)), 300)), cas)
		return
	}
	// expected lines as a multiset (stages overlap; direct runs of one task are indistinguishable from each other)
	expect := func(t tdesc, s *sdesc) string {
		var parts []string
		for _, n := range names {
			v := parent[n]
			if t.ctx {
				if x, ok := ctxEnv[n]; ok {
					v = x
				}
			}
			if t.ef {
				if x, ok := fileEnv[n]; ok {
					v = x
				}
			}
			if x, ok := t.env[n]; ok {
				v = x
			}
			if s != nil {
				if x, ok := s.env[n]; ok {
					v = x
				}
			}
			parts = append(parts, n+"=["+v+"]")
		}
		sid := ""
		if s != nil {
			sid = s.env["SID"]
		}
		return "EXE id=[" + t.name + "] " + strings.Join(parts, " ") + " TASK_NAME=[" + t.name + "] SID=[" + sid + "]"
	}
	var want []string
	for _, i := range direct {
		want = append(want, expect(ts[i], nil))
	}
	for k := range ss {
		want = append(want, expect(ts[ss[k].task], &ss[k]))
	}
	g := append([]string{}, got...)
	sort.Strings(g)
	sort.Strings(want)
	c.Count("multi_task_executions", int64(len(got)))
	for i := range want {
		if g[i] != want[i] {
			// name the first differing key
			a, b := parseKV(g[i]), parseKV(want[i])
			sig, what := "env-multi/execution-set", fmt.Sprintf("executions differ: got %q, the statement requires %q", g[i], want[i])
			if a["id"] == b["id"] && a["SID"] == b["SID"] {
				for _, n := range append(append([]string{}, names...), "TASK_NAME") {
					if a[n] != b[n] {
						sig = "env-multi/" + map[bool]string{true: "task-name", false: "value-from-another-execution"}[n == "TASK_NAME"]
						what = fmt.Sprintf("execution of %s (stage id %q) saw $%s=%q, the levels that apply to it give %q", a["id"], a["SID"], n, a[n], b[n])
						break
					}
				}
			}
			c.Violate(sig, what, cas)
			break
		}
	}
	c.Nontrivial("multi" + gen.YAML(cfg) + strings.Join(targets, " "))
}
