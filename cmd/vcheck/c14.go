package main

import (
	"fmt"
	"os"
	"path/filepath"
	"strings"
	"time"

	"verif/internal/gen"
	"verif/internal/h"
	"verif/internal/oracle"
)

func c14(c *h.Ctx) {
	c.Rule = "1..8 tasks over 1..3 used contexts (+1 unused), tasks with/without task-level before/after/condition, succeeding/failing/skipped, `up` ok / failing / slow; started sequentially, simultaneously from a barrier of goroutines, or as parallel stages of the real scheduler; then Finish; race-detector pass; CLI: task and pipeline targets, succeeding and failing, one or two targets. Oracle: bracket grammar up (before task after)* down for sequential runs, counting + Hall condition for overlapping runs. non-trivial = distinct cases with >=2 tasks"
	c.Assumptions = []string{"a task skipped by its condition may have 0 or 1 context before/after", "whether `down` runs for a context whose `up` failed is not determined", "hooks append tokens to one O_APPEND trace file (printf, one write per token)"}
	anchors := []string{"pkg/runner/context.go", "pkg/runner/runner.go"}
	runWorkers(c, workerOpts{Mode: "ctx", Shards: 8, Timeout: 15 * time.Minute})
	runWorkers(c, workerOpts{Mode: "ctx", Race: true, Shards: 8, Timeout: 15 * time.Minute, Anchors: anchors})
	c14cli(c)
}

func c14cli(c *h.Ctx) {
	n := c.N(60, 1200)
	h.Par(n, 16, func(i int) {
		r := h.NewRand(c.Seed*977+int64(i), "c14cli")
		dir := caseDir(c, fmt.Sprintf("c14.%d", i))
		defer os.RemoveAll(dir)
		real, _ := filepath.EvalSymlinks(dir)
		trace := real + "/trace"
		tok := func(s string) string { return fmt.Sprintf("printf '%s\\n' >> '%s'", s, trace) }
		info := oracle.CtxInfo{UpFails: map[string]bool{}, Tasks: map[string]oracle.CtxTask{}}
		ctxs := gen.OM{}
		nctx := r.Range(1, 2)
		for k := 0; k < nctx+1; k++ {
			cx := fmt.Sprintf("c%d", k)
			info.Contexts = append(info.Contexts, cx)
			down := tok(cx + "|down")
			if r.Chance(35) {
				down += "; exit 1" // a failing shutdown hook of one context says nothing about the others
			}
			cdef := gen.OM{{K: "up", V: []interface{}{tok(cx+"|up|S") + "; " + tok(cx+"|up|E")}}, {K: "down", V: []interface{}{down}},
				{K: "before", V: []interface{}{tok(cx + "|cb")}}, {K: "after", V: []interface{}{tok(cx + "|ca")}}}
			if r.Chance(25) {
				cdef = cdef[1:] // nothing to bring up; still shut down
				if info.NoUp == nil {
					info.NoUp = map[string]bool{}
				}
				info.NoUp[cx] = true
			}
			ctxs.Set(cx, cdef)
		}
		tasks := gen.OM{}
		skipSome := r.Chance(30)
		mk := func(name, cx string, fail bool) {
			cmd := "echo some visible output of " + name + "; " + tok(fmt.Sprintf("%s|T|%s:c0", cx, name))
			if fail {
				cmd += "; exit 5"
			}
			td := gen.OM{{K: "context", V: cx}, {K: "command", V: []interface{}{cmd}}}
			if skipSome && !fail && (name == "p0" || name == "n0" || name == "t0") {
				td.Set("condition", "exit 1") // skipped: no command token, hooks balanced
			}
			tasks.Set(name, td)
		}
		// targets
		kind := []string{"task", "pipeline", "two-tasks", "task+pipeline", "nested"}[r.Intn(5)]
		fail := r.Chance(50)
		var argv []string
		pipes := gen.OM{}
		ran := func(name, cx string, failed bool) {
			info.Tasks[name] = oracle.CtxTask{Ctx: cx, Ran: true, Failed: failed, RetOK: !failed, Skipped: skipSome && !failed && (name == "p0" || name == "n0" || name == "t0")}
		}
		cx0 := "c0"
		cx1 := fmt.Sprintf("c%d", r.Intn(nctx))
		switch kind {
		case "task":
			mk("t0", cx0, fail)
			ran("t0", cx0, fail)
			argv = []string{"t0"}
		case "pipeline", "task+pipeline":
			mk("p0", cx0, false)
			mk("p1", cx1, fail)
			mk("p2", cx0, false)
			ran("p0", cx0, false)
			ran("p1", cx1, fail)
			st := []interface{}{gen.OM{{K: "task", V: "p0"}}, gen.OM{{K: "task", V: "p1"}, {K: "depends_on", V: []interface{}{"p0"}}}, gen.OM{{K: "task", V: "p2"}, {K: "depends_on", V: []interface{}{"p1"}}}}
			if !fail {
				ran("p2", cx0, false)
			}
			pipes.Set("pp", st)
			argv = []string{"pp"}
			if kind == "task+pipeline" {
				mk("t0", cx1, false)
				ran("t0", cx1, false)
				argv = []string{"t0", "pp"}
			}
		case "nested":
			// outer pipeline: included pipeline first, then a stage of the same context
			mk("n0", cx0, false)
			mk("n1", cx1, false)
			mk("late", cx0, fail)
			ran("n0", cx0, false)
			ran("n1", cx1, false)
			ran("late", cx0, fail)
			pipes.Set("inner", []interface{}{gen.OM{{K: "task", V: "n0"}}, gen.OM{{K: "task", V: "n1"}, {K: "depends_on", V: []interface{}{"n0"}}}})
			pipes.Set("outer", []interface{}{gen.OM{{K: "name", V: "inc"}, {K: "pipeline", V: "inner"}}, gen.OM{{K: "task", V: "late"}, {K: "depends_on", V: []interface{}{"inc"}}}})
			argv = []string{"outer"}
		case "two-tasks":
			mk("t0", cx0, false)
			mk("t1", cx1, fail)
			ran("t0", cx0, false)
			ran("t1", cx1, fail)
			argv = []string{"t0", "t1"}
		}
		info.Sequential = true
		cfg := gen.OM{{K: "contexts", V: ctxs}, {K: "tasks", V: tasks}}
		if len(pipes) > 0 {
			cfg.Set("pipelines", pipes)
		}
		h.WriteFile(real+"/tasks.yaml", gen.YAML(cfg))
		form := r.Intn(2)
		format := []string{"raw", "raw", "prefixed"}[r.Intn(3)]
		args := []string{"-o", format}
		if form == 1 {
			args = append(args, "run")
		}
		args = append(args, argv...)
		var res h.ProcResult
		devFull := r.Chance(30)
		if devFull {
			// standard output that cannot be written (a full disk): what the tasks print is lost, the hooks still run
			c.Count("taskctl_processes", 1)
			c.Count("cli_runs_with_unwritable_stdout", 1)
			home := filepath.Join(c.Work, "emptyhome")
			os.MkdirAll(home, 0o755)
			res = h.Proc{Argv: append([]string{"/bin/sh", "-c", `exec "$0" "$@" > /dev/full`, c.Bin}, args...), Dir: real, Env: h.BaseEnv(home), Timeout: 30 * time.Second}.Run()
		} else {
			res = tc{Dir: real, Timeout: 30 * time.Second}.run(c, args...)
		}
		c.Eval(1)
		toks := strings.Fields(h.ReadFile(trace))
		cas := map[string]interface{}{"yaml": gen.YAML(cfg), "argv": args, "trace": toks, "exit": res.Exit, "target_fails": fail, "stdout_is_dev_full": devFull}
		if crashed, how := res.Crashed(); crashed {
			c.Violate("cli-crash/"+h.TopFrame(string(res.Stderr)), "taskctl died: "+how, cas)
			return
		}
		c.Count("cli_tokens", int64(len(toks)))
		sfx := "/cli-target-succeeds"
		if fail {
			sfx = "/cli-target-fails"
		}
		if len(argv) > 1 {
			sfx += "/two-targets"
		}
		for _, f := range oracle.CheckCtxTrace(toks, info) {
			c.Violate("cli/"+f.Sig+sfx, f.What+fmt.Sprintf(" [taskctl %s]", strings.Join(args, " ")), cas)
		}
		c.Nontrivial("cli" + fmt.Sprint(kind, fail, form, cx1, format, devFull))
		if i < 1 {
			c.Sample(cas)
		}
	})
}

func init() { checks["C14"] = checkDef{"exploration", c14} }
