package main

import (
	"os"
	"path/filepath"
	"regexp"
	"strings"
	"time"

	"verif/internal/h"
)

// tc runs the taskctl binary built from the working tree with a controlled
// environment ($HOME = an empty directory unless given).
type tc struct {
	Dir     string
	Home    string
	Env     []string
	Timeout time.Duration
	Stdin   []byte
	// KeepGroup: see h.Proc
	KeepGroup bool
}

func (t tc) run(c *h.Ctx, args ...string) h.ProcResult {
	home := t.Home
	if home == "" {
		home = filepath.Join(c.Work, "emptyhome")
		os.MkdirAll(home, 0o755)
	}
	to := t.Timeout
	if to == 0 {
		to = 30 * time.Second
	}
	c.Count("taskctl_processes", 1)
	var res h.ProcResult
	for try := 0; try < 4; try++ {
		res = h.Proc{Argv: append([]string{c.Bin}, args...), Dir: t.Dir, Env: h.BaseEnv(home, t.Env...), Timeout: to, Stdin: t.Stdin, KeepGroup: t.KeepGroup}.Run()
		// the machine (not taskctl) was out of file descriptors / inotify instances for a moment - many checks side
		// by side: the invocation says nothing, it is repeated
		if !strings.Contains(string(res.Stderr), "too many open files") && !strings.Contains(string(res.Stdout), "too many open files") {
			break
		}
		c.Count("invocations_repeated_after_descriptor_exhaustion", 1)
		time.Sleep(time.Duration(300*(try+1)) * time.Millisecond)
	}
	return res
}

var ansiRe = regexp.MustCompile("\x1b\\[[0-9;]*[A-Za-z]")

func stripANSI(s string) string { return ansiRe.ReplaceAllString(s, "") }

func lines(s string) []string {
	var r []string
	for _, l := range strings.Split(s, "\n") {
		l = strings.TrimRight(l, "\r")
		if l != "" {
			r = append(r, l)
		}
	}
	return r
}

// caseDir makes a fresh directory for one case.
func caseDir(c *h.Ctx, name string) string {
	d := filepath.Join(c.Work, "cases", name)
	os.MkdirAll(d, 0o755)
	return d
}
