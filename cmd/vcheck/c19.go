package main

import (
	"bufio"
	"bytes"
	"encoding/json"
	"fmt"
	"os"
	"path/filepath"
	"strings"
	"time"

	"verif/internal/gen"
	"verif/internal/h"
)

func c19(c *h.Ctx) {
	c.Rule = "prefixed / raw decorators in-process with a synchronised sink recording every Write: streams of 1..12 lines of 0..10000 bytes (incl. 4090..4100 around the buffer size), LF / CRLF / lone CR / unterminated tail, ANSI sequences (CSI, OSC..BEL) at random places, split into write calls 1-byte / tiny / medium / large / single, with empty writes, splits inside CRLF and (half of the cases) inside an ANSI sequence; 1..8 tasks with disjoint payload alphabets writing from their own goroutines; race-detector pass. Formats x outcomes {success, failing command, allowed failure, skipped, failing before-hook, failing context up} under raw / prefixed / cockpit in child processes and through the CLI. non-trivial = distinct cases whose stream was split inside a line or that had >=2 concurrent tasks"
	c.Assumptions = []string{"write boundaries do not fall between the two bytes (C2 9B) that encode the one-character CSI introducer U+009B", "number and position of line breaks, empty lines and what cockpit draws are not examined", "attribution is decidable because the tasks' payload alphabets are disjoint", "the ANSI language is the decorator's own regular expression, applied after re-joining on both sides as the statement prescribes"}
	anchors := []string{"pkg/output/prefixed.go", "pkg/output/raw.go", "pkg/output/cockpit.go", "pkg/output/output.go"}
	runWorkers(c, workerOpts{Mode: "deco", Shards: 8, Timeout: 15 * time.Minute})
	runWorkers(c, workerOpts{Mode: "deco", Race: true, Shards: 8, Timeout: 15 * time.Minute, Anchors: anchors})

	// formats x outcomes, library level (child per case)
	outcomes := []string{"success", "fail", "allowed-failure", "skipped", "before-fails", "both-streams", "long-ansi-lines", "fail-coloured-tail", "ok-coloured-tail", "then-success", "then-fail", "then-skipped", "then-before-fails"}
	formats := []string{"raw", "prefixed", "cockpit"}
	results := map[string]map[string]string{}
	type job struct{ f, o string }
	var jobs []job
	for _, o := range outcomes {
		results[o] = map[string]string{}
		for _, f := range formats {
			jobs = append(jobs, job{f, o})
		}
	}
	resCh := make(chan [3]string, len(jobs))
	visCh := make(chan [3]string, len(jobs))
	h.Par(len(jobs), 8, func(i int) {
		j := jobs[i]
		work := filepath.Join(c.Work, fmt.Sprintf("fmt.%d", i))
		os.MkdirAll(work, 0o755)
		defer os.RemoveAll(work)
		spec, _ := json.Marshal(map[string]string{"format": j.f, "outcome": j.o})
		runIt := func() h.ProcResult {
			return h.Proc{Argv: []string{filepath.Join(c.BinDir, "vworker"), "fmt1", "work=" + work, "spec=" + string(spec)}, Dir: work, Env: h.BaseEnv(work), Timeout: 30 * time.Second}.Run()
		}
		res := runIt()
		c.Eval(1)
		if res.TimedOut {
			// bounded-progress observation: re-confirm (the spinner library has a rare timing-dependent stall of its own)
			again := 0
			for k := 0; k < 3; k++ {
				if res = runIt(); res.TimedOut {
					again++
				} else {
					break
				}
			}
			if again < 3 {
				c.Inconclusive(fmt.Sprintf("format %s outcome %s: child exceeded 30 s once, not reproduced", j.f, j.o))
			}
		}
		cas := map[string]interface{}{"format": j.f, "outcome": j.o, "stderr": tail(string(res.Stderr), 3000)}
		if crashed, how := res.Crashed(); crashed {
			c.Violate("output-layer-crash/"+j.f+"/"+h.TopFrame(string(res.Stderr)), fmt.Sprintf("format %s, task outcome %s: %s", j.f, j.o, how), cas)
			return
		}
		if res.TimedOut {
			c.Violate("output-layer-hang/"+j.f, fmt.Sprintf("format %s, task outcome %s: child did not finish in 30 s", j.f, j.o), cas)
			return
		}
		sc := bufio.NewScanner(bytes.NewReader(res.Stdout))
		for sc.Scan() {
			if t := sc.Text(); strings.Contains(t, `"k":"fmtvisible"`) {
				if k := strings.Index(t, `{"`); k > 0 {
					t = t[k:]
				}
				visCh <- [3]string{j.o, j.f, t}
			} else if strings.Contains(t, `"k":"fmtresult"`) {
				// the child's standard output is also where cockpit draws: a spinner frame may precede the record
				if k := strings.Index(t, `{"`); k > 0 {
					t = t[k:]
				}
				resCh <- [3]string{j.o, j.f, t}
			}
		}
		c.Nontrivial("fmt" + j.f + j.o)
	})
	close(resCh)
	for r := range resCh {
		results[r[0]][r[1]] = r[2]
	}
	// what the user sees of the task's output (prefixes, terminators and escape sequences removed) is the same under
	// raw and prefixed, whatever the outcome of the task
	close(visCh)
	vis := map[string]map[string]string{}
	for r := range visCh {
		if vis[r[0]] == nil {
			vis[r[0]] = map[string]string{}
		}
		vis[r[0]][r[1]] = r[2]
	}
	for _, o := range outcomes {
		if o == "both-streams" {
			continue // the order in which two streams reach one sink is not determined (and differs by format)
		}
		if a, b := vis[o]["raw"], vis[o]["prefixed"]; a != "" && b != "" && a != b {
			c.Violate("visible-output-depends-on-format/prefixed", fmt.Sprintf("task outcome %s: payload shown under raw %s, under prefixed %s", o, clip(a, 300), clip(b, 300)), map[string]interface{}{"outcome": o})
		}
		c.Count("visible_payloads_compared", 1)
	}
	for _, o := range outcomes {
		for _, f := range formats[1:] {
			if a, b := results[o]["raw"], results[o][f]; a != "" && b != "" && a != b {
				c.Violate("result-depends-on-format/"+f, fmt.Sprintf("task outcome %s: recorded result under raw %s, under %s %s", o, a, f, b), map[string]interface{}{"outcome": o})
			}
		}
	}
	// through the CLI
	dir := caseDir(c, "c19cli")
	defer os.RemoveAll(dir)
	cfg := gen.OM{
		{K: "contexts", V: gen.OM{{K: "badup", V: gen.OM{{K: "up", V: []interface{}{"exit 1"}}}}}},
		{K: "tasks", V: gen.OM{
			{K: "success", V: gen.OM{{K: "command", V: []interface{}{"printf 'one\\ntwo\\n'"}}}},
			{K: "fail", V: gen.OM{{K: "command", V: []interface{}{"printf 'one\\n'; exit 9"}}}},
			{K: "allowed-failure", V: gen.OM{{K: "command", V: []interface{}{"exit 4", "printf 'after\\n'"}}, {K: "allow_failure", V: true}}},
			{K: "skipped", V: gen.OM{{K: "command", V: []interface{}{"printf 'never\\n'"}}, {K: "condition", V: "exit 1"}}},
			{K: "before-fails", V: gen.OM{{K: "command", V: []interface{}{"printf 'never\\n'"}}, {K: "before", V: []interface{}{"exit 2"}}}},
			{K: "up-fails", V: gen.OM{{K: "command", V: []interface{}{"printf 'never\\n'"}}, {K: "context", V: "badup"}}},
			{K: "both-streams", V: gen.OM{{K: "command", V: []interface{}{"sh -c 'i=0; while [ $i -lt 1500 ]; do echo out$i; echo err$i >&2; i=$((i+1)); done'"}}}},
		}},
		{K: "pipelines", V: gen.OM{{K: "mixed", V: []interface{}{gen.OM{{K: "task", V: "success"}}, gen.OM{{K: "task", V: "skipped"}}, gen.OM{{K: "task", V: "before-fails"}, {K: "allow_failure", V: true}}, gen.OM{{K: "task", V: "allowed-failure"}}}},
			// the same outcomes one after the other: a task that never starts (skipped, failing before-hook) finishes
			// after another task has really run in this process
			{K: "chained", V: []interface{}{gen.OM{{K: "task", V: "success"}}, gen.OM{{K: "task", V: "skipped"}, {K: "depends_on", V: []interface{}{"success"}}},
				gen.OM{{K: "task", V: "before-fails"}, {K: "allow_failure", V: true}, {K: "depends_on", V: []interface{}{"skipped"}}},
				gen.OM{{K: "task", V: "allowed-failure"}, {K: "depends_on", V: []interface{}{"before-fails"}}},
				gen.OM{{K: "name", V: "again"}, {K: "task", V: "success"}, {K: "depends_on", V: []interface{}{"allowed-failure"}}}}}}},
	}
	h.WriteFile(dir+"/tasks.yaml", gen.YAML(cfg))
	targets := []string{"success", "fail", "allowed-failure", "skipped", "before-fails", "up-fails", "both-streams", "mixed", "chained"}
	exits := map[string]map[string]int{}
	type cj struct{ f, t string }
	var cjobs []cj
	for _, t := range targets {
		exits[t] = map[string]int{}
		for _, f := range formats {
			cjobs = append(cjobs, cj{f, t})
		}
	}
	// invocations in which no task ever starts (the output layer is closed before it drew anything), several times
	// each: what happens at shutdown races with the end of the process
	for k := 0; k < c.N(8, 40); k++ {
		cjobs = append(cjobs, cj{"cockpit", "skipped"}, cj{"cockpit", "before-fails"}, cj{"prefixed", "skipped"})
	}
	exCh := make(chan [2]string, len(cjobs))
	exVal := make(chan int, len(cjobs))
	h.Par(len(cjobs), 8, func(i int) {
		j := cjobs[i]
		res := tc{Dir: dir, Timeout: 30 * time.Second}.run(c, "-o", j.f, j.t)
		c.Eval(1)
		if res.TimedOut {
			again := 0
			for k := 0; k < 3; k++ {
				if res = (tc{Dir: dir, Timeout: 30 * time.Second}).run(c, "-o", j.f, j.t); res.TimedOut {
					again++
				} else {
					break
				}
			}
			if again < 3 {
				c.Inconclusive(fmt.Sprintf("taskctl -o %s %s exceeded 30 s once, not reproduced", j.f, j.t))
			}
		}
		cas := map[string]interface{}{"argv": []string{"-o", j.f, j.t}, "exit": res.Exit, "stderr": tail(string(res.Stderr), 3000)}
		if crashed, how := res.Crashed(); crashed {
			c.Violate("output-layer-crash/"+j.f+"/"+h.TopFrame(string(res.Stderr)), fmt.Sprintf("taskctl -o %s %s: %s", j.f, j.t, how), cas)
			return
		}
		if res.TimedOut {
			c.Violate("output-layer-hang/"+j.f, fmt.Sprintf("taskctl -o %s %s did not finish in 30 s", j.f, j.t), cas)
			return
		}
		exCh <- [2]string{j.t, j.f}
		exVal <- res.Exit
		c.Nontrivial("cli" + j.f + j.t)
	})
	close(exCh)
	close(exVal)
	for k := range exCh {
		exits[k[0]][k[1]] = <-exVal
	}
	for _, t := range targets {
		for _, f := range formats[1:] {
			a, ok1 := exits[t]["raw"]
			b, ok2 := exits[t][f]
			if ok1 && ok2 && (a != 0) != (b != 0) {
				c.Violate("cli-exit-depends-on-format/"+f, fmt.Sprintf("target %s exits %d under raw and %d under %s", t, a, b, f), map[string]interface{}{"target": t})
			}
		}
	}
}

func init() { checks["C19"] = checkDef{"exploration", c19} }
