package main

import (
	"fmt"
	"os"
	"path/filepath"
	"strings"
	"time"

	"verif/internal/gen"
	"verif/internal/h"
)

var varLevels = []string{"config", "set", "task", "stage"}

func c10vars(c *h.Ctx, idx int, staged bool, assign string, r *h.Rand) {
	dir := caseDir(c, fmt.Sprintf("c10v.%d", idx))
	defer os.RemoveAll(dir)
	real, _ := filepath.EvalSymlinks(dir)
	trace := real + "/trace"
	nlev := 4
	if !staged {
		nlev = 3
	}
	defs := make([]map[string]string, 4)
	for i := range defs {
		defs[i] = map[string]string{}
	}
	want, wantLevel := map[string]string{}, map[string]string{}
	var names []string
	for mask := 1; mask < 1<<uint(nlev); mask++ {
		name := fmt.Sprintf("VV_%s_%02d", assign, mask)
		names = append(names, name)
		for lv := 0; lv < nlev; lv++ {
			if mask&(1<<uint(lv)) == 0 {
				continue
			}
			var val string
			switch assign {
			case "asc":
				val = fmt.Sprintf("%d%s", lv, varLevels[lv])
			case "desc":
				val = fmt.Sprintf("%d%s", 9-lv, varLevels[lv])
			default:
				val = fmt.Sprintf("%c%s%d", "0123456789abcxyzABCXYZ"[r.Intn(22)], varLevels[lv], r.Intn(100))
				if lv >= 2 && r.Chance(15) {
					val = "" // a task or a stage that defines the name as empty still defines it
				}
				if lv == 1 && r.Chance(35) {
					// a --set value that itself contains the separator: NAME ends at the first "="
					val += []string{"=1", "=a=b", "=", "==x", " = y"}[r.Intn(5)]
				}
			}
			defs[lv][name] = val
			want[name], wantLevel[name] = val, varLevels[lv]
		}
	}
	format, argv := "VARS", ""
	for _, k := range names {
		format += " " + k + "=[%s]"
		argv += fmt.Sprintf(" '{{.%s}}'", k)
	}
	format += " Root=[%s] TempDir=[%s] Args=[%s] ArgsList=[%s]"
	argv += " '{{.Root}}' '{{.TempDir}}' '{{.Args}}' '{{range .ArgsList}}<{{.}}>{{end}}'"
	cmd := fmt.Sprintf("printf '%s\\n'%s >> '%s'", format, argv, trace)
	hook := func(tag string) string {
		return fmt.Sprintf("printf '%s\\n'%s >> '%s'", strings.Replace(format, "VARS", tag, 1), argv, trace)
	}
	cfg := gen.OM{{K: "variables", V: defs[0]}, {K: "tasks", V: gen.OM{{K: "t", V: gen.OM{{K: "before", V: []interface{}{hook("BEFORE")}}, {K: "command", V: []interface{}{cmd}}, {K: "after", V: []interface{}{hook("AFTER")}}, {K: "variables", V: defs[2]}}}}}}
	target := "t"
	if staged {
		cfg.Set("pipelines", gen.OM{{K: "p", V: []interface{}{gen.OM{{K: "name", V: "s1"}, {K: "task", V: "t"}, {K: "variables", V: defs[3]}}}}})
		target = "p"
	}
	// things that are not one of the four levels must not take part: values of the task's variations (environment
	// of the commands) and the variables of the execution context the task runs in, both using the very same names
	wheres := []string{"before-hook", "command", "after-hook"}
	if r != nil && idx%2 == 1 {
		tv := cfg[len(cfg)-1].V.(gen.OM)
		if staged {
			tv = cfg[len(cfg)-2].V.(gen.OM)
		}
		td := tv[0].V.(gen.OM)
		v1 := gen.OM{{K: "ONLY_IN_FIRST", V: "x"}}
		cv := gen.OM{}
		for i, n := range names {
			if i%3 == 0 {
				v1.Set(n, "from-the-first-variation")
			}
			if i%3 == 1 {
				cv.Set(n, "from-the-context")
			}
		}
		td.Set("variations", []interface{}{v1, gen.OM{{K: "ONLY_IN_SECOND", V: "y"}}})
		td.Set("context", "box")
		tv[0].V = td
		cfg = append(gen.OM{{K: "contexts", V: gen.OM{{K: "box", V: gen.OM{{K: "variables", V: cv}}}}}}, cfg...)
		wheres = []string{"before-hook", "command", "command", "after-hook"}
	}
	h.WriteFile(real+"/tasks.yaml", gen.YAML(cfg))
	var args []string
	for _, k := range sortedKeys(defs[1]) {
		args = append(args, "--set", k+"="+defs[1][k])
	}
	// --set is a flag of taskctl itself: it applies whichever way the target is then named
	switch idx % 4 {
	case 1:
		args = append(args, "-o", "raw", "run", target)
	case 2:
		args = append(args, "-o", "raw", "run", map[bool]string{true: "pipeline", false: "task"}[staged], target)
	default:
		args = append(args, "-o", "raw", target)
	}
	res := tc{Dir: real}.run(c, args...)
	c.Eval(1)
	got := lines(h.ReadFile(trace))
	cas := map[string]interface{}{"yaml": gen.YAML(cfg), "argv": args, "exit": res.Exit, "trace": got, "stderr": tail(stripANSI(string(res.Stderr)), 500)}
	if crashed, how := res.Crashed(); crashed {
		c.Violate("cli-crash/"+h.TopFrame(string(res.Stderr)), "taskctl died: "+how, cas)
		return
	}
	if res.Exit != 0 || len(got) != len(wheres) {
		sig := "vars-run-failed"
		if strings.Contains(string(res.Stderr), "map has no entry for key") {
			// find which level was the only one defining the missing key
			sig = "variable-undefined-although-defined"
			se := string(res.Stderr)
			if i := strings.Index(se, "map has no entry for key \\\""); i >= 0 {
				key := se[i+len("map has no entry for key \\\""):]
				if j := strings.Index(key, "\\\""); j > 0 {
					key = key[:j]
					var lv []string
					for l := 0; l < 4; l++ {
						if _, ok := defs[l][key]; ok {
							lv = append(lv, varLevels[l])
						}
					}
					sig += "/defined-at-" + strings.Join(lv, "+")
				}
			}
		}
		c.Violate(sig, fmt.Sprintf("exit %d, trace %v: %s", res.Exit, got, tail(stripANSI(string(res.Stderr)), 300)), cas)
		return
	}
	kv := parseKV(got[1])
	for li, where := range wheres {
		kvl := parseKV(got[li])
		for _, n := range names {
			c.Count("names_checked", 1)
			if kvl[n] != want[n] {
				from := "?"
				for l := 0; l < 4; l++ {
					if v, ok := defs[l][n]; ok && v == kvl[n] {
						from = varLevels[l]
					}
				}
				sfx := ""
				if where != "command" {
					sfx = "/in-" + where
				}
				c.Violate(fmt.Sprintf("var-precedence/%s-beats-%s%s", from, wantLevel[n], sfx), fmt.Sprintf("%s: variable %s rendered %q, the highest level (%s) has %q", where, n, kvl[n], wantLevel[n], want[n]), cas)
			}
			c.Nontrivial(fmt.Sprint(n, staged, want[n]))
		}
	}
	if kv["Root"] == "" || kv["TempDir"] == "" {
		c.Violate("builtin-undefined", fmt.Sprintf("Root=%q TempDir=%q", kv["Root"], kv["TempDir"]), cas)
	}
	if kv["Args"] != "" || kv["ArgsList"] != "" {
		c.Violate("args-not-empty", fmt.Sprintf("without `--`: Args=%q ArgsList=%q", kv["Args"], kv["ArgsList"]), cas)
	}
	if c.NSamples() < 1 {
		c.Sample(cas)
	}
}

func c10args(c *h.Ctx, idx int, r *h.Rand) {
	dir := caseDir(c, fmt.Sprintf("c10a.%d", idx))
	defer os.RemoveAll(dir)
	real, _ := filepath.EvalSymlinks(dir)
	trace := real + "/trace"
	mk := func(name string) gen.OM {
		return gen.OM{{K: "command", V: []interface{}{fmt.Sprintf("printf 'RAN:%s Args=[%%s] ArgsList=[%%s] ENV=[%%s]\\n' '{{.Args}}' '{{range .ArgsList}}<{{.}}>{{end}}' \"$ARGS\" >> '%s'", name, trace)}}}
	}
	cfg := gen.OM{{K: "tasks", V: gen.OM{{K: "t1", V: mk("t1")}, {K: "t2", V: mk("t2")}, {K: "inner", V: mk("inner")}}},
		{K: "pipelines", V: gen.OM{{K: "pp", V: []interface{}{gen.OM{{K: "task", V: "inner"}}}}}}}
	h.WriteFile(real+"/tasks.yaml", gen.YAML(cfg))
	pool := []string{"t1", "t2", "pp", "inner", "a=b", "x=1", "-v", "--x", "-o", "--", "word", "a.b/c", "UP", "9", "k:v", "--set", "t1"}
	nw := r.Intn(6)
	var words []string
	for i := 0; i < nw; i++ {
		words = append(words, pool[r.Intn(len(pool))])
	}
	if idx < len(pool) && nw > 0 {
		words[0] = pool[idx] // make sure every special word appears first at least once
	}
	nt := r.Range(1, 2)
	targets := []string{[]string{"t1", "t2", "pp"}[r.Intn(3)]}
	if nt == 2 {
		targets = append(targets, []string{"t1", "t2", "pp"}[r.Intn(3)])
		if targets[1] == targets[0] {
			targets = targets[:1]
		}
	}
	form := r.Intn(2)
	args := []string{"-o", "raw"}
	if form == 1 {
		args = append(args, "run")
	}
	args = append(args, targets...)
	if nw > 0 || r.Bool() {
		args = append(args, "--")
		args = append(args, words...)
	}
	// taskctl itself was started with an ARGS variable in its environment (a nested run, a CI system): what the tasks
	// see is still exactly what follows `--` on THIS command line
	res := tc{Dir: real, Env: []string{"ARGS=inherited from the parent"}}.run(c, args...)
	c.Eval(1)
	got := lines(h.ReadFile(trace))
	cas := map[string]interface{}{"argv": args, "exit": res.Exit, "trace": got, "stderr": tail(stripANSI(string(res.Stderr)), 400)}
	if crashed, how := res.Crashed(); crashed {
		c.Violate("cli-crash/"+h.TopFrame(string(res.Stderr)), "taskctl died: "+how, cas)
		return
	}
	wantArgs := strings.Join(words, " ")
	wantList := ""
	for _, w := range words {
		wantList += "<" + w + ">"
	}
	var wantRan []string
	for _, t := range targets {
		if t == "pp" {
			wantRan = append(wantRan, "inner")
		} else {
			wantRan = append(wantRan, t)
		}
	}
	var ran []string
	multi := false
	for _, w := range words {
		if w == "--" {
			multi = true
		}
	}
	for _, ln := range got {
		f := strings.Fields(ln)
		ran = append(ran, strings.TrimPrefix(f[0], "RAN:"))
		kv := parseKV(ln)
		c.Count("arg_lines", 1)
		sfx := ""
		if multi {
			sfx = "/args-contain-double-dash"
		}
		if kv["Args"] != wantArgs {
			c.Violate("args-not-verbatim/Args"+sfx, fmt.Sprintf("argv %v: .Args=%q, want %q", args, kv["Args"], wantArgs), cas)
		}
		if kv["ArgsList"] != wantList {
			c.Violate("args-not-verbatim/ArgsList"+sfx, fmt.Sprintf("argv %v: .ArgsList=%q, want %q", args, kv["ArgsList"], wantList), cas)
		}
		if kv["ENV"] != wantArgs {
			c.Violate("args-not-verbatim/ARGS-env"+sfx, fmt.Sprintf("argv %v: $ARGS=%q, want %q", args, kv["ENV"], wantArgs), cas)
		}
	}
	if strings.Join(ran, " ") != strings.Join(wantRan, " ") {
		sig := "args-targets"
		if len(ran) > len(wantRan) {
			sig = "argument-run-as-target"
		}
		c.Violate(sig, fmt.Sprintf("argv %v ran %v, want %v", args, ran, wantRan), cas)
	}
	if res.Exit != 0 {
		c.Violate("args-run-failed", fmt.Sprintf("argv %v: exit %d: %s", args, res.Exit, tail(stripANSI(string(res.Stderr)), 200)), cas)
	}
	if nw > 0 {
		c.Nontrivial(strings.Join(args, " "))
	}
	if idx == 3 {
		c.Sample(cas)
	}
}

func c10undef(c *h.Ctx, idx, n, pos int, where string, allow bool) {
	dir := caseDir(c, fmt.Sprintf("c10u.%d", idx))
	defer os.RemoveAll(dir)
	real, _ := filepath.EvalSymlinks(dir)
	trace := real + "/trace"
	var cmds []interface{}
	var want []string
	for i := 0; i < n; i++ {
		cmd := fmt.Sprintf("printf 'c%d[%%s]\\n' ", i)
		if where == "command" && i == pos {
			switch idx % 3 {
			case 0:
				cmd += "'x{{.NotDefinedAnywhere}}y'"
			case 1:
				cmd += "'x{{.NotDefinedAnywhere}}y by default'" // the word `default` as ordinary text
			default:
				cmd += "'x{{.NotDefinedAnywhere}}y {{ .Root | default \"d\" }}'" // next to a use of the default function
			}
		} else {
			cmd += "'ok'"
		}
		cmds = append(cmds, cmd+fmt.Sprintf(" >> '%s'", trace))
		if where == "command" && i < pos {
			want = append(want, fmt.Sprintf("c%d[ok]", i))
		}
	}
	t := gen.OM{{K: "command", V: cmds}, {K: "allow_failure", V: allow}}
	switch where {
	case "variable":
		// the command refers to a variable whose VALUE is a template over something undefined
		t.Set("variables", gen.OM{{K: "Banner", V: "deploying {{.NotDefinedAnywhere}} now"}})
		cmds[pos] = fmt.Sprintf("printf 'c%d[%%s]\\n' '{{.Banner}}' >> '%s'", pos, trace)
		t.Set("command", cmds)
		want = nil
		for i := 0; i < pos; i++ {
			want = append(want, fmt.Sprintf("c%d[ok]", i))
		}
	case "before":
		t.Set("before", []interface{}{fmt.Sprintf("printf 'before[%%s]\\n' '{{.NotDefinedAnywhere}}' >> '%s'", trace)})
	case "dir":
		t.Set("dir", real+"/{{.NotDefinedAnywhere}}")
	case "condition":
		// the task's condition is a command too: it cannot be asked, which is not the same as answering "no"
		t.Set("condition", []string{"test \"{{.NotDefinedAnywhere}}\" = release", "test -n \"{{.NotDefinedAnywhere}}\"", "true {{.NotDefinedAnywhere}}"}[idx%3])
	}
	cfg := gen.OM{{K: "tasks", V: gen.OM{{K: "t", V: t}}}}
	h.WriteFile(real+"/tasks.yaml", gen.YAML(cfg))
	res := tc{Dir: real}.run(c, "-o", "raw", "t")
	c.Eval(1)
	got := lines(h.ReadFile(trace))
	cas := map[string]interface{}{"yaml": gen.YAML(cfg), "exit": res.Exit, "trace": got, "stderr": tail(stripANSI(string(res.Stderr)), 300)}
	if crashed, how := res.Crashed(); crashed {
		c.Violate("cli-crash/"+h.TopFrame(string(res.Stderr)), "taskctl died: "+how, cas)
		return
	}
	if strings.Join(got, " ") != strings.Join(want, " ") {
		sig := "undefined-variable/command-ran"
		for _, g := range got {
			if strings.Contains(g, "[xy") || strings.Contains(g, "<no value>") || strings.HasPrefix(g, "before[") {
				sig = "undefined-variable/empty-substitution"
			}
		}
		c.Violate(sig+"/"+where, fmt.Sprintf("undefined variable in %s %d of %d: trace %v, the statement requires %v", where, pos, n, got, want), cas)
	}
	if res.Exit == 0 {
		c.Violate("undefined-variable/task-succeeded/"+where, fmt.Sprintf("undefined variable in %s %d of %d (allow_failure=%v): taskctl exited 0", where, pos, n, allow), cas)
	}
	c.Nontrivial(fmt.Sprint("undef", n, pos, where, allow))
}

func c10(c *h.Ctx) {
	c.Rule = "in-process: 4..10 parallel stages, 2..5 commands each, every command a distinct template over the stage's own variables, under the real scheduler and runner, plain and under the race detector (each stage must execute its own text rendered with its own values); CLI: every non-empty subset of {config variables, --set, task, stage} (15, stage run) and of the first three (7, direct run) defines its own name, values ascending / descending / shuffled; built-ins rendered; one task shared by a chain of 2..4 stages, each stage defining its own subset of the names (what a stage renders is decided by the levels as that stage has them); argument vectors of 0..5 words from a pool containing target names, a=b, -v, --x, -- after 1..2 targets in two invocation forms; undefined variable at every position of 1..4 commands, in before, in dir and in the task's condition, with/without allow_failure. non-trivial = every distinct (name, winner) / argument vector with >=1 word / undefined-variable position"
	c.Assumptions = []string{"the value of Root is not examined, only that it is defined", "argv with `--` before any target is outside the statement"}
	var jobs []func()
	idx := 0
	for _, staged := range []bool{true, false} {
		for _, as := range []string{"asc", "desc"} {
			i, st, as := idx, staged, as
			jobs = append(jobs, func() { c10vars(c, i, st, as, nil) })
			idx++
		}
		for s := 0; s < c.N(2, 30); s++ {
			i, st, s := idx, staged, s
			jobs = append(jobs, func() { c10vars(c, i, st, fmt.Sprint("shuf", s), h.NewRand(c.Seed*17+int64(s), "c10")) })
			idx++
		}
	}
	for k := 0; k < c.N(120, 3000); k++ {
		k := k
		jobs = append(jobs, func() { c10args(c, k, h.NewRand(c.Seed*7919+int64(k), "c10args")) })
	}
	for k := 0; k < c.N(6, 120); k++ {
		k := k
		jobs = append(jobs, func() { c10shared(c, k, h.NewRand(c.Seed*31337+int64(k), "c10shared")) })
	}
	u := 0
	for n := 1; n <= 4; n++ {
		for pos := 0; pos < n; pos++ {
			for _, allow := range []bool{false, true} {
				i, n, pos, allow := u, n, pos, allow
				jobs = append(jobs, func() { c10undef(c, i, n, pos, "command", allow) })
				u++
			}
		}
		for _, where := range []string{"before", "dir", "variable", "condition"} {
			i, n, where := u, n, where
			jobs = append(jobs, func() { c10undef(c, i, n, 0, where, n%2 == 0) })
			u++
		}
	}
	h.Par(len(jobs), 16, func(i int) { jobs[i]() })
	// in-process: parallel stages whose commands are templates over their own variables (real scheduler and runner),
	// plain and under the race detector
	anchors := []string{"pkg/utils/util.go", "pkg/runner/compiler.go", "pkg/variables/variables.go"}
	runWorkers(c, workerOpts{Mode: "render", Shards: 4, Timeout: 15 * time.Minute})
	runWorkers(c, workerOpts{Mode: "render", Race: true, Shards: 4, Timeout: 15 * time.Minute, Anchors: anchors})
}

func init() { checks["C10"] = checkDef{"exploration", c10} }
