package main

import (
	"fmt"
	"os"
	"regexp"
	"sort"
	"strings"
	"time"

	"verif/internal/gen"
	"verif/internal/h"
)

var dotNode = regexp.MustCompile(`(n\d+)\[label="([^"]*)"\]`)
var dotEdge = regexp.MustCompile(`(n\d+)->(n\d+)`)

// parseDot returns the set of label pairs "from->to".
func parseDot(s string) map[string]bool {
	lab := map[string]string{}
	for _, m := range dotNode.FindAllStringSubmatch(s, -1) {
		lab[m[1]] = m[2]
	}
	e := map[string]bool{}
	for _, m := range dotEdge.FindAllStringSubmatch(s, -1) {
		e[lab[m[1]]+"->"+lab[m[2]]] = true
	}
	return e
}

func c05(c *h.Ctx) {
	c.Rule = "in-process: every digraph (self-loops included) on <=3 stages x all declaration orders (quick; <=4 stages = 65536 x 24 in thorough), seeded sample of the 4-stage space, seeded graphs on 5..10 stages with shuffled/duplicated depends_on lists; oracle = Kahn's algorithm + edge-set comparison of To/From. CLI: sampled graphs as YAML through `taskctl graph` / load error. non-trivial = distinct cases with >=2 declared edges"
	c.Assumptions = []string{"only edges among declared stages are generated (dangling names are C18)", "state of a graph object after a failed AddStage is not examined"}
	c.Extra("exhaustive_subspace", fmt.Sprintf("all digraphs on <=%d stages x all declaration orders", c.N(3, 4)))
	runWorkers(c, workerOpts{Mode: "graph", Shards: 8, Timeout: 20 * time.Minute})

	// CLI sample
	rnd := c.Rand("cli")
	n := c.N(150, 3000)
	h.Par(n, 16, func(i int) {
		r := h.NewRand(int64(i)*7919+c.Seed, "c05cli")
		_ = rnd
		ns := r.Range(2, 6)
		deps := make([][]int, ns)
		lab := r.Perm(ns)
		acyc := r.Chance(65)
		for x := 0; x < ns; x++ {
			for y := 0; y < ns; y++ {
				if acyc && lab[y] >= lab[x] {
					continue
				}
				if r.Chance(35) {
					deps[x] = append(deps[x], y)
				}
			}
		}
		order := r.Perm(ns)
		cyc := kahnCycle(ns, deps)
		var tasks gen.OM
		var stages []interface{}
		// stage names: explicit (s<i>), or none (the stage then goes by the name of its task); explicitly named
		// stages may run the task of an unnamed one
		nm := make([]string, ns)
		tk := make([]string, ns)
		unnamed := []int{}
		for i := 0; i < ns; i++ {
			nm[i], tk[i] = fmt.Sprintf("s%d", i), "t"
			if i%2 == 0 && r.Chance(45) {
				nm[i], tk[i] = fmt.Sprintf("tk%d", i), fmt.Sprintf("tk%d", i)
				unnamed = append(unnamed, i)
			}
		}
		for i := 0; i < ns; i++ {
			if tk[i] == "t" && len(unnamed) > 0 && r.Chance(40) {
				tk[i] = tk[unnamed[r.Intn(len(unnamed))]]
			}
		}
		// a stage may run another pipeline instead of a task - the same one as a sibling stage, or one that a sibling's
		// pipeline includes in turn (a diamond of inclusions): that says nothing about depends_on
		nested := r.Chance(35)
		usesNested := false
		for _, i := range order {
			st := gen.OM{{K: "name", V: nm[i]}, {K: "task", V: tk[i]}}
			if nm[i] == tk[i] {
				st = gen.OM{{K: "task", V: tk[i]}}
			} else if nested && r.Chance(50) {
				st = gen.OM{{K: "name", V: nm[i]}, {K: "pipeline", V: []string{"inner", "inner", "leaf"}[r.Intn(3)]}}
				usesNested = true
			}
			var dl []interface{}
			for _, d := range deps[i] {
				dl = append(dl, nm[d])
			}
			if len(dl) > 0 {
				st.Set("depends_on", dl)
			}
			stages = append(stages, st)
		}
		// properties of the tasks (interactive, contexts, ...) are no part of the dependency relation
		tdef := func() gen.OM {
			t := gen.OM{{K: "command", V: []interface{}{"true"}}}
			if r.Chance(40) {
				t.Set("interactive", true)
			}
			if r.Chance(20) {
				t.Set("allow_failure", true)
			}
			return t
		}
		tasks.Set("t", tdef())
		for _, u := range unnamed {
			tasks.Set(tk[u], tdef())
		}
		// the pipeline under test is one of several of its configuration (the others are sound)
		pipes := gen.OM{}
		nOther := r.Intn(4)
		at := r.Intn(nOther + 1)
		for k := 0; k <= nOther; k++ {
			if k == at {
				pipes.Set("p", stages)
			}
			if k < nOther {
				pipes.Set(fmt.Sprintf("other%d", k), []interface{}{gen.OM{{K: "name", V: "o1"}, {K: "task", V: "t"}}, gen.OM{{K: "name", V: "o2"}, {K: "task", V: "t"}, {K: "depends_on", V: []interface{}{"o1"}}}})
			}
		}
		if usesNested {
			pipes.Set("leaf", []interface{}{gen.OM{{K: "name", V: "l1"}, {K: "task", V: "t"}}})
			pipes.Set("inner", []interface{}{gen.OM{{K: "name", V: "i1"}, {K: "pipeline", V: "leaf"}}, gen.OM{{K: "name", V: "i2"}, {K: "pipeline", V: "leaf"}, {K: "depends_on", V: []interface{}{"i1"}}}})
			c.Count("cli_pipelines_with_inclusions", 1)
		}
		cfg := gen.OM{{K: "tasks", V: tasks}, {K: "pipelines", V: pipes}}
		dir := caseDir(c, fmt.Sprintf("g%d", i))
		defer os.RemoveAll(dir)
		h.WriteFile(dir+"/f.yaml", gen.YAML(cfg))
		res := tc{Dir: dir}.run(c, "-c", dir+"/f.yaml", "graph", "p")
		c.Eval(1)
		cas := map[string]interface{}{"yaml": gen.YAML(cfg), "exit": res.Exit, "stderr": tail(string(res.Stderr), 500)}
		if crashed, how := res.Crashed(); crashed {
			c.Violate("cli-crash/"+h.TopFrame(string(res.Stderr)), "taskctl graph died: "+how, cas)
			return
		}
		rejected := res.Exit != 0 && strings.Contains(string(res.Stderr), "cycle detected")
		switch {
		case res.Exit != 0 && !rejected:
			c.Violate("cli-unexpected-error", "taskctl graph failed without a cycle error: "+tail(string(res.Stderr), 300), cas)
		case rejected && !cyc:
			c.Violate("acyclic-rejected", "CLI: an acyclic pipeline was rejected as cyclic", cas)
		case !rejected && cyc:
			c.Violate("cyclic-accepted", "CLI: a cyclic pipeline was accepted", cas)
		case !rejected:
			got := parseDot(string(res.Stdout))
			if usesNested {
				// the drawing shows included pipelines with their own edges: those are theirs, not p's
				for e := range got {
					if e == "i1->i2" {
						delete(got, e)
					}
				}
			}
			want := map[string]bool{}
			for x := range deps {
				for _, d := range deps[x] {
					want[nm[d]+"->"+nm[x]] = true
				}
			}
			if !sameSet(got, want) {
				c.Violate("cli-edges-differ", fmt.Sprintf("`taskctl graph` shows edges %v, declared %v", setKeys(got), setKeys(want)), cas)
			}
			if len(want) >= 2 {
				c.Nontrivial("cli" + gen.YAML(cfg))
			}
			c.Count("cli_edges_compared", int64(len(want)))
		}
		if i < 2 {
			c.Sample(cas)
		}
	})
}

func kahnCycle(n int, deps [][]int) bool {
	indeg := make([]int, n)
	out := make([][]int, n)
	for i := range deps {
		for _, d := range deps[i] {
			if d == i {
				return true
			}
			out[d] = append(out[d], i)
			indeg[i]++
		}
	}
	var q []int
	for i := 0; i < n; i++ {
		if indeg[i] == 0 {
			q = append(q, i)
		}
	}
	done := 0
	for len(q) > 0 {
		x := q[0]
		q = q[1:]
		done++
		for _, y := range out[x] {
			if indeg[y]--; indeg[y] == 0 {
				q = append(q, y)
			}
		}
	}
	return done != n
}

func sameSet(a, b map[string]bool) bool {
	if len(a) != len(b) {
		return false
	}
	for k := range a {
		if !b[k] {
			return false
		}
	}
	return true
}
func setKeys(m map[string]bool) []string {
	r := make([]string, 0, len(m))
	for k := range m {
		r = append(r, k)
	}
	sort.Strings(r)
	return r
}

func init() { checks["C05"] = checkDef{"exploration", c05} }
