package main

// C08 (in-process part): per-stage overrides stay with their stage.

import (
	"fmt"
	"sort"
	"sync"
	"time"

	"github.com/taskctl/taskctl/pkg/scheduler"
	"github.com/taskctl/taskctl/pkg/task"
	"github.com/taskctl/taskctl/pkg/variables"

	"verif/internal/h"
)

type snap struct {
	Task string            `json:"task"`
	Env  map[string]string `json:"env"`
	Vars map[string]string `json:"vars"`
	Dir  string            `json:"dir"`
}

type recRunner struct {
	mu    sync.Mutex
	snaps []snap
	rnd   *h.Rand
}

func strMap(c variables.Container) map[string]string {
	m := map[string]string{}
	if c == nil {
		return m
	}
	for k, v := range c.Map() {
		m[k] = fmt.Sprint(v)
	}
	return m
}

func (r *recRunner) Run(t *task.Task) error {
	s := snap{Task: t.Name, Env: strMap(t.Env), Vars: strMap(t.Variables), Dir: t.Dir}
	r.mu.Lock()
	r.snaps = append(r.snaps, s)
	d := time.Duration(r.rnd.Intn(3000)) * time.Microsecond
	r.mu.Unlock()
	time.Sleep(d)
	return nil
}
func (r *recRunner) Cancel() {}
func (r *recRunner) Finish() {}

type stageOv struct {
	ID   string            `json:"id"`
	Env  map[string]string `json:"env,omitempty"`
	Vars map[string]string `json:"vars,omitempty"`
	Dir  string            `json:"dir,omitempty"`
	Deps []string          `json:"deps,omitempty"`
}
type c08Case struct {
	TaskEnv  map[string]string `json:"task_env"`
	TaskVars map[string]string `json:"task_vars"`
	TaskDir  string            `json:"task_dir"`
	P1, P2   []stageOv
	Arr      string `json:"arrangement"`
}

func genC08(r *h.Rand) c08Case {
	c := c08Case{TaskEnv: map[string]string{"TK": "task-tk", "COMMON": "task-common"}, TaskVars: map[string]string{"TVAR": "task-tvar", "CVAR": "task-cvar"}}
	if r.Chance(60) {
		c.TaskDir = "/taskdir"
	}
	if r.Chance(15) {
		c.TaskEnv = map[string]string{}
	}
	if r.Chance(15) {
		c.TaskVars = map[string]string{}
	}
	c.Arr = []string{"parallel", "chain", "mixed"}[r.Intn(3)]
	mk := func(pfx string, k int) []stageOv {
		var st []stageOv
		for i := 0; i < k; i++ {
			id := fmt.Sprintf("%s%d", pfx, i)
			s := stageOv{ID: id, Env: map[string]string{"STAGE_ID": id}, Vars: map[string]string{}}
			if r.Chance(80) {
				s.Env["E_"+id] = "env-of-" + id
			}
			if r.Chance(40) {
				s.Env["COMMON"] = "common-of-" + id
			}
			if r.Chance(70) {
				s.Vars["V_"+id] = "var-of-" + id
			}
			if r.Chance(30) {
				s.Vars["CVAR"] = "cvar-of-" + id
			}
			if r.Chance(40) {
				s.Dir = "/stagedir-" + id
			}
			switch c.Arr {
			case "chain":
				if i > 0 {
					s.Deps = []string{fmt.Sprintf("%s%d", pfx, i-1)}
				}
			case "mixed":
				for j := 0; j < i; j++ {
					if r.Chance(35) {
						s.Deps = append(s.Deps, fmt.Sprintf("%s%d", pfx, j))
					}
				}
			}
			st = append(st, s)
		}
		return st
	}
	c.P1 = mk("a", r.Range(2, 6))
	c.P2 = mk("b", r.Range(1, 3))
	return c
}

func overlay(base, over map[string]string) map[string]string {
	m := map[string]string{}
	for k, v := range base {
		m[k] = v
	}
	for k, v := range over {
		m[k] = v
	}
	return m
}

func sameMap(a, b map[string]string) bool {
	if len(a) != len(b) {
		return false
	}
	for k, v := range a {
		if w, ok := b[k]; !ok || w != v {
			return false
		}
	}
	return true
}

func runC08(a args, cs c08Case, idx int, r *h.Rand) {
	out.Begin(fmt.Sprintf("stage#%d", idx))
	shared := task.NewTask()
	shared.Name = "shared"
	shared.Commands = []string{"true"}
	shared.Env = variables.FromMap(cs.TaskEnv)
	shared.Variables = variables.FromMap(cs.TaskVars)
	shared.Dir = cs.TaskDir
	rec := &recRunner{rnd: r}
	byID := map[string]stageOv{}
	build := func(sts []stageOv) *scheduler.ExecutionGraph {
		var list []*scheduler.Stage
		for _, s := range sts {
			byID[s.ID] = s
			st := &scheduler.Stage{Name: s.ID, Task: shared, DependsOn: s.Deps, Dir: s.Dir, Env: variables.FromMap(s.Env)}
			if len(s.Vars) > 0 {
				st.Variables = variables.FromMap(s.Vars)
			}
			list = append(list, st)
		}
		g, err := scheduler.NewExecutionGraph(list...)
		if err != nil {
			panic(err)
		}
		return g
	}
	g1, g2 := build(cs.P1), build(cs.P2)
	for _, g := range []*scheduler.ExecutionGraph{g1, g2, g1} { // the first pipeline is run twice
		for _, st := range g.Nodes() {
			st.UpdateStatus(scheduler.StatusWaiting) // so that a second run of the same graph runs again
		}
		sch := scheduler.NewScheduler(rec)
		sch.VerifSetPause(200 * time.Microsecond)
		if err := sch.Schedule(g); err != nil {
			out.Viol("C08", "pipeline-failed", fmt.Sprint(err), cs)
		}
	}
	nStage := len(rec.snaps)
	rec.Run(shared) // direct run afterwards
	cas := map[string]interface{}{"case": cs, "observed": rec.snaps}
	out.Count("cases", 1)
	out.Count("events", int64(len(rec.snaps)))
	seen := map[string]int{}
	for i, s := range rec.snaps {
		if i == nStage {
			// the direct run: exactly the task's own settings
			if !sameMap(s.Env, cs.TaskEnv) {
				out.Viol("C08", "stage-env-leaks-into-direct-run", fmt.Sprintf("direct run after the pipelines sees env %v, the task's own env is %v", s.Env, cs.TaskEnv), cas)
			}
			if !sameMap(s.Vars, cs.TaskVars) {
				out.Viol("C08", "stage-variables-leak-into-direct-run", fmt.Sprintf("direct run sees variables %v, the task's own are %v", s.Vars, cs.TaskVars), cas)
			}
			if s.Dir != cs.TaskDir {
				out.Viol("C08", "stage-dir-leaks-into-direct-run", fmt.Sprintf("direct run has dir %q, task dir is %q", s.Dir, cs.TaskDir), cas)
			}
			continue
		}
		id := s.Env["STAGE_ID"]
		ov, ok := byID[id]
		if !ok {
			out.Viol("C08", "stage-env-not-applied", fmt.Sprintf("a stage execution received env %v without its own overrides", s.Env), cas)
			continue
		}
		seen[id]++
		if want := overlay(cs.TaskEnv, ov.Env); !sameMap(s.Env, want) {
			sig := "stage-env-leaks-between-stages"
			for k := range want {
				if _, ok := s.Env[k]; !ok {
					sig = "stage-env-replaces-task-env"
				}
			}
			out.Viol("C08", sig, fmt.Sprintf("stage %s received env %v, the statement requires %v", id, s.Env, want), cas)
		}
		if want := overlay(cs.TaskVars, ov.Vars); !sameMap(s.Vars, want) {
			sig := "stage-variables-leak-between-stages"
			for k := range want {
				if _, ok := s.Vars[k]; !ok {
					sig = "stage-variables-replace-task-variables"
				}
			}
			out.Viol("C08", sig, fmt.Sprintf("stage %s received variables %v, the statement requires %v", id, s.Vars, want), cas)
		}
		wantDir := cs.TaskDir
		if ov.Dir != "" {
			wantDir = ov.Dir
		}
		if s.Dir != wantDir {
			out.Viol("C08", "stage-dir", fmt.Sprintf("stage %s ran with dir %q, the statement requires %q", id, s.Dir, wantDir), cas)
		}
	}
	var ids []string
	for id := range byID {
		ids = append(ids, id)
	}
	sort.Strings(ids)
	for _, id := range ids {
		want := 1
		if id[0] == 'a' {
			want = 2
		}
		if seen[id] != want {
			out.Viol("C08", "stage-executions-attributed", fmt.Sprintf("stage %s identified %d times among the executions (expected %d): overrides of another stage replaced its own", id, seen[id], want), cas)
		}
	}
	// the shared task object itself must be untouched
	if !sameMap(strMap(shared.Env), cs.TaskEnv) || !sameMap(strMap(shared.Variables), cs.TaskVars) || shared.Dir != cs.TaskDir {
		out.Viol("C08", "shared-task-mutated", fmt.Sprintf("after the pipelines the shared task has env %v vars %v dir %q", strMap(shared.Env), strMap(shared.Variables), shared.Dir), cas)
	}
	out.Nontrivial("C08", h.MustJSON(cs))
	out.Sample("C08", cas)
}

func modeStage(a args) {
	rnd := h.NewRand(a.Seed, "stage")
	n := a.n(400, 8000)
	if a.Race {
		n = a.n(150, 1500)
	}
	for i := 0; i < n; i++ {
		r := h.NewRand(int64(rnd.U64()), "c08")
		if !a.mine(i) {
			continue
		}
		runC08(a, genC08(r), i, r)
	}
}

func init() { modes["stage"] = modeStage }
