package main

// Free-running workload for C01–C04: real scheduler + real TaskRunner + shell
// commands that append S:/E: tokens to one O_APPEND trace file; seeded delays
// at the scheduler's hook points; meant to run under the race detector.

import (
	"fmt"
	"io"
	"os"
	"path/filepath"
	"strconv"
	"strings"
	"sync"
	"time"

	"github.com/taskctl/taskctl/pkg/runner"
	"github.com/taskctl/taskctl/pkg/scheduler"
	"github.com/taskctl/taskctl/pkg/task"
	"github.com/taskctl/taskctl/pkg/utils"
	"github.com/taskctl/taskctl/pkg/variables"

	"verif/internal/h"
)

// The harness runs several independent runners in one process; taskctl itself
// never does. Finish touches package-global state of pkg/output (closed/closeCh),
// so the harness serialises these calls instead of manufacturing that race.
var finishMu sync.Mutex

func lockedFinish(f func()) {
	finishMu.Lock()
	defer finishMu.Unlock()
	f()
}

func newQuietRunner() *runner.TaskRunner {
	r, err := runner.NewTaskRunner()
	if err != nil {
		panic(err)
	}
	r.Stdout, r.Stderr = io.Discard, io.Discard
	return r
}

func buildFree(spec *graphSpec, prefix, trace string, rnd *h.Rand, stages map[string]*scheduler.Stage) (*scheduler.ExecutionGraph, error) {
	var list []*scheduler.Stage
	for i := range spec.Stages {
		sp := &spec.Stages[i]
		full := prefix + sp.Name
		st := &scheduler.Stage{Name: sp.Name, DependsOn: append([]string(nil), sp.Deps...)}
		switch sp.Outcome {
		case oFailAllow:
			st.AllowFailure = true
		case oCondFalse:
			st.Condition = "/bin/false"
		}
		if sp.Nested != nil {
			g, err := buildFree(sp.Nested, full+"/", trace, rnd, stages)
			if err != nil {
				return nil, err
			}
			st.Pipeline = g
		} else if sp.SameAs != "" {
			// includes the very graph object another stage of this pipeline includes (set below)
		} else {
			code := 0
			if sp.Outcome == oFail || sp.Outcome == oFailAllow {
				code = 1 + rnd.Intn(3)
			}
			t := task.FromCommands(fmt.Sprintf("printf 'S:%s\\n' >> '%s'", full, trace),
				fmt.Sprintf("sleep 0.0%02d", rnd.Intn(40)),
				fmt.Sprintf("printf 'E:%s\\n' >> '%s'; exit %d", full, trace, code))
			t.Name = full
			st.Task = t
		}
		stages[full] = st
		list = append(list, st)
	}
	for i := range spec.Stages {
		if sa := spec.Stages[i].SameAs; sa != "" {
			stages[prefix+spec.Stages[i].Name].Pipeline = stages[prefix+sa].Pipeline
		}
	}
	return scheduler.NewExecutionGraph(list...)
}

func modeSchedFree(a args) {
	rnd := h.NewRand(a.Seed, "schedfree")
	n := a.n(60, 1500)
	delays := h.NewRand(a.Seed, "delays", fmt.Sprint(a.Shard))
	var dmu = make(chan struct{}, 1)
	dmu <- struct{}{}
	schedDelay.Store(func(point string) {
		<-dmu
		d := delays.Intn(4)
		us := 50 + delays.Intn(500)
		dmu <- struct{}{}
		switch d {
		case 0:
		case 1:
			time.Sleep(time.Duration(us) * time.Microsecond)
		default:
			for i := 0; i < d; i++ {
				time.Sleep(time.Microsecond)
			}
		}
	})
	for i := 0; i < n; i++ {
		r := h.NewRand(int64(rnd.U64()), "free")
		if !a.mine(i) {
			continue
		}
		spec := randomSpec(r, 2, 6, r.Chance(25))
		runFree(a, spec, r, i)
	}
	// C04: barrier pipelines — complete only if all k stages run at the same time
	nb := a.n(12, 200)
	for i := 0; i < nb; i++ {
		r := h.NewRand(int64(rnd.U64()), "barrier")
		if !a.mine(i) {
			continue
		}
		runBarrier(a, r, i)
	}
	// contexts whose `up` commands wait for each other; one very wide barrier (more stages than any fixed pool)
	nu := a.n(8, 80)
	for i := 0; i < nu; i++ {
		r := h.NewRand(int64(rnd.U64()), "upbarrier")
		if !a.mine(i) {
			continue
		}
		runBarrierK(a, r, 10000+i, r.Range(2, 5), true)
	}
	nw := a.n(1, 6)
	for i := 0; i < nw; i++ {
		r := h.NewRand(int64(rnd.U64()), "widebarrier")
		if !a.mine(i) {
			continue
		}
		runBarrierK(a, r, 20000+i, 40+24*(i%2), false)
	}
	// a stage that becomes eligible while another task is inside its after-hook (or before-hook) runs at once
	nh := a.n(4, 40)
	for i := 0; i < nh; i++ {
		if !a.mine(i) {
			continue
		}
		runHookBarrier(a, i)
	}
	// after-commands belong to the task: a dependant starts when they are over
	for i := 0; i < a.n(3, 24); i++ {
		if a.mine(i) {
			runAfterDep(a, i)
		}
	}
	// a failure published at an arbitrary instant of a pass: none of the many dependants may slip through
	for i := 0; i < a.n(4, 40); i++ {
		if a.mine(i) {
			runFailStress(a, i)
		}
	}
	// pipelines that must return although a context hook fails / an interactive task sits on an idle stdin
	for i := 0; i < a.n(4, 32); i++ {
		if a.mine(i) {
			runHookFailure(a, i)
		}
	}
	// a stage condition whose executable leaves a child behind (that keeps its output open) and returns at once
	for i := 0; i < a.n(8, 32); i++ {
		if a.mine(i) {
			runLingeringCondition(a, i)
		}
	}
	// C01 with real processes: a dependency whose command overruns its timeout and ignores the interrupt, in a
	// stage that tolerates failure; the dependant must not start while that command is still executing
	nt := a.n(3, 24)
	for i := 0; i < nt; i++ {
		if !a.mine(i) {
			continue
		}
		runTimeoutDep(a, i)
	}
}

// runHookBarrier: task A sits in a hook (after or before, by index) until stage B has started; B depends on X,
// which finishes only once A is inside that hook. Nothing orders A and B, so B has to run while A's hook is open.
func runHookBarrier(a args, idx int) {
	dir := filepath.Join(a.Work, fmt.Sprintf("hookbarrier.%d", idx))
	os.MkdirAll(dir, 0o755)
	defer os.RemoveAll(dir)
	wait := func(file string) string {
		return fmt.Sprintf("n=0; while [ ! -e '%s/%s' ]; do sleep 0.01; n=$((n+1)); if [ $n -gt 1000 ]; then exit 1; fi; done", dir, file)
	}
	hook := fmt.Sprintf(": > '%s/hook.open'; %s; : > '%s/hook.saw-b'", dir, wait("b.started"), dir)
	ta := task.FromCommands("true")
	ta.Name = "a"
	where := "after"
	if idx%2 == 1 {
		where = "before"
		ta.Before = []string{hook}
	} else {
		ta.After = []string{hook}
	}
	tx := task.FromCommands(wait("hook.open") + "; sleep 0.05")
	tx.Name = "x"
	tb := task.FromCommands(fmt.Sprintf(": > '%s/b.started'", dir))
	tb.Name = "b"
	g, err := scheduler.NewExecutionGraph(&scheduler.Stage{Name: "a", Task: ta}, &scheduler.Stage{Name: "x", Task: tx}, &scheduler.Stage{Name: "b", Task: tb, DependsOn: []string{"x"}})
	if err != nil {
		return
	}
	out.Begin(fmt.Sprintf("hook-barrier#%d %s", idx, where))
	tr := newQuietRunner()
	sch := scheduler.NewScheduler(tr)
	sch.VerifSetPause(time.Millisecond)
	done := make(chan error, 1)
	go func() { done <- sch.Schedule(g) }()
	cas := map[string]interface{}{"hook": where}
	select {
	case <-done:
	case <-time.After(90 * time.Second):
		out.Viol("C04", "hook-barrier-hung", "pipeline in which a stage becomes eligible while another task's "+where+"-hook is open did not return in 90 s", cas)
		return
	}
	lockedFinish(sch.Finish)
	out.Count("executions", 1)
	out.Count("hook_barrier_pipelines", 1)
	if _, err := os.Stat(dir + "/hook.saw-b"); err != nil {
		out.Viol("C04", "eligible-stage-held-back-by-a-hook", "stage b became eligible while task a was inside its "+where+"-hook and did not execute until that hook had given up waiting for it", cas)
	}
	out.Nontrivial("C04", fmt.Sprint("hook-barrier", idx))
}

func runAfterDep(a args, idx int) {
	dir := filepath.Join(a.Work, fmt.Sprintf("afterdep.%d", idx))
	os.MkdirAll(dir, 0o755)
	defer os.RemoveAll(dir)
	trace := dir + "/trace"
	tok := func(s string) string { return fmt.Sprintf("printf '%s\\n' >> '%s'", s, trace) }
	dep := task.FromCommands(tok("DEP"))
	dep.Name = "dep"
	dep.After = []string{tok("AFTER_START") + "; sleep 0.3; " + tok("AFTER_END")}
	if idx%2 == 1 {
		dep.After = []string{tok("AFTER_START"), "sleep 0.2", tok("AFTER_END")}
	}
	child := task.FromCommands(tok("CHILD"))
	child.Name = "child"
	g, err := scheduler.NewExecutionGraph(&scheduler.Stage{Name: "dep", Task: dep}, &scheduler.Stage{Name: "child", Task: child, DependsOn: []string{"dep"}})
	if err != nil {
		return
	}
	out.Begin(fmt.Sprintf("after-dependency#%d", idx))
	tr := newQuietRunner()
	sch := scheduler.NewScheduler(tr)
	sch.VerifSetPause(time.Millisecond)
	done := make(chan error, 1)
	go func() { done <- sch.Schedule(g) }()
	select {
	case <-done:
	case <-time.After(60 * time.Second):
		out.Inconclusive("C01", "after-dependency pipeline did not return within 60 s")
		return
	}
	lockedFinish(sch.Finish)
	time.Sleep(600 * time.Millisecond)
	toks := strings.Fields(h.ReadFile(trace))
	out.Count("executions", 1)
	out.Count("after_dependency_pipelines", 1)
	cas := map[string]interface{}{"trace": toks}
	if strings.Join(toks, " ") != "DEP AFTER_START AFTER_END CHILD" {
		out.Viol("C01", "dependant-started-before-after-commands-finished", fmt.Sprintf("trace %v; the dependency's task (its after-commands included) has to be over before the dependant starts: [DEP AFTER_START AFTER_END CHILD]", toks), cas)
	}
	out.Nontrivial("C01", fmt.Sprint("after-dependency", idx))
}

// stubRunner runs nothing: a task "fails" or "succeeds" after spinning for a while (no sleeping: the instant at
// which the result is published is meant to fall anywhere inside a scheduling pass).
type stubRunner struct {
	mu   sync.Mutex
	ran  map[string]int
	spin map[string]int
	fail map[string]bool
}

func (s *stubRunner) Run(t *task.Task) error {
	n := s.spin[t.Name]
	x := 0
	for i := 0; i < n; i++ {
		x += i % 7
	}
	_ = x
	s.mu.Lock()
	s.ran[t.Name]++
	s.mu.Unlock()
	if s.fail[t.Name] {
		return fmt.Errorf("failed")
	}
	return nil
}
func (s *stubRunner) Cancel() {}
func (s *stubRunner) Finish() {}

func runFailStress(a args, idx int) {
	r := h.NewRand(a.Seed*977+int64(idx), "failstress")
	out.Begin(fmt.Sprintf("fail-stress#%d", idx))
	bad := 0
	trials := 120
	for trial := 0; trial < trials; trial++ {
		sr := &stubRunner{ran: map[string]int{}, spin: map[string]int{}, fail: map[string]bool{"F": true}}
		var st []*scheduler.Stage
		mk := func(name string, deps ...string) {
			t := task.FromCommands("true")
			t.Name = name
			st = append(st, &scheduler.Stage{Name: name, Task: t, DependsOn: deps})
		}
		mk("F")
		sr.spin["F"] = 2000 + r.Intn(400000)
		var oks []string
		for i := 0; i < 10; i++ {
			n := fmt.Sprintf("ok%d", i)
			mk(n)
			sr.spin[n] = r.Intn(2000)
			oks = append(oks, n)
		}
		for i := 0; i < 14; i++ {
			mk(fmt.Sprintf("d%d", i), append([]string{"F"}, oks...)...)
		}
		g, err := scheduler.NewExecutionGraph(st...)
		if err != nil {
			return
		}
		sch := scheduler.NewScheduler(sr)
		sch.VerifSetPause(0)
		serr := sch.Schedule(g)
		for i := 0; i < 14; i++ {
			n := fmt.Sprintf("d%d", i)
			stg, _ := g.Node(n)
			if sr.ran[n] > 0 || stg.ReadStatus() != scheduler.StatusCanceled || serr == nil {
				bad++
				if bad == 1 {
					out.Viol("C02", "ran-behind-failed-dependency", fmt.Sprintf("stress trial %d: dependant %s of the failed stage F: ran %d times, status %s, run error=%v (13 dependencies, failure published at an arbitrary instant)", trial, n, sr.ran[n], statusName(stg.ReadStatus()), serr != nil), map[string]interface{}{"trial": trial})
					out.Viol("C01", "start-behind-failed-dependency", fmt.Sprintf("stress trial %d: dependant %s ran although its dependency F failed", trial, n), map[string]interface{}{"trial": trial})
				}
				break
			}
		}
	}
	out.Count("executions", int64(trials))
	out.Count("fail_stress_trials", int64(trials))
	out.Nontrivial("C02", fmt.Sprint("fail-stress", idx))
}

// runHookFailure: two parallel stages in one named context whose before-hook (`mkdir`) fails for the second one,
// and - every other case - an interactive task on a stdin that stays open and silent. Whatever fails, the run returns.
func runHookFailure(a args, idx int) {
	dir := filepath.Join(a.Work, fmt.Sprintf("hookfail.%d", idx))
	os.MkdirAll(dir, 0o755)
	defer os.RemoveAll(dir)
	tr := newQuietRunner()
	tr.SetContexts(map[string]*runner.ExecutionContext{"locked": runner.NewExecutionContext(&utils.Binary{}, "", variables.NewVariables(), nil, nil,
		[]string{fmt.Sprintf("mkdir '%s/lock'", dir)}, []string{fmt.Sprintf("rmdir '%s/lock'", dir)})})
	var st []*scheduler.Stage
	for i := 0; i < 3; i++ {
		t := task.FromCommands("sleep 0.1")
		t.Name = fmt.Sprintf("h%d", i)
		t.Context = "locked"
		st = append(st, &scheduler.Stage{Name: t.Name, Task: t, AllowFailure: true})
	}
	later := task.FromCommands("true")
	later.Name = "later"
	later.Context = "locked"
	st = append(st, &scheduler.Stage{Name: "later", Task: later, DependsOn: []string{"h0", "h1", "h2"}, AllowFailure: true})
	// a task (not the stage) that tolerates its failing commands: every command runs once, the stage completes
	tol := task.FromCommands("true", "false", "exit 3", "true")
	tol.Name = "tolerant"
	tol.AllowFailure = true
	if idx%3 == 0 {
		tol.Variations = []map[string]string{{"V": "1"}, {"V": "2"}}
	}
	aft := task.FromCommands("true")
	aft.Name = "after-tolerant"
	aftStage := &scheduler.Stage{Name: "after-tolerant", Task: aft, DependsOn: []string{"tolerant"}}
	st = append(st, &scheduler.Stage{Name: "tolerant", Task: tol}, aftStage)
	interactive := idx%2 == 1
	if interactive {
		pr, pw, err := os.Pipe()
		if err == nil {
			defer pw.Close()
			defer pr.Close()
			tr.Stdin = pr
			it := task.FromCommands("sh -c 'exit 0'", "sh -c 'exit 0'")
			it.Name = "asks"
			it.Interactive = true
			st = append(st, &scheduler.Stage{Name: "asks", Task: it}, &scheduler.Stage{Name: "after-asks", Task: task.FromCommands("true"), DependsOn: []string{"asks"}})
			st[len(st)-1].Task.Name = "after-asks"
		}
	}
	g, err := scheduler.NewExecutionGraph(st...)
	if err != nil {
		return
	}
	out.Begin(fmt.Sprintf("hook-failure#%d interactive=%v", idx, interactive))
	sch := scheduler.NewScheduler(tr)
	sch.VerifSetPause(time.Millisecond)
	done := make(chan error, 1)
	go func() { done <- sch.Schedule(g) }()
	cas := map[string]interface{}{"interactive_stage": interactive}
	select {
	case <-done:
	case <-time.After(45 * time.Second):
		out.Viol("C03", "schedule-did-not-return/hook-failure", "a pipeline whose commands all terminate (a context before-hook fails for some stages; a task with allow_failure has failing commands"+map[bool]string{true: "; an interactive task on an idle stdin", false: ""}[interactive]+") did not return within 45 s", cas)
		go sch.Cancel() // whatever is still going round is stopped, the workload goes on
		return
	}
	if rs := aftStage.ReadStatus(); rs != scheduler.StatusDone {
		out.Viol("C03", "eligible-stage-not-run/after-tolerant-task", "stage after-tolerant depends on a stage whose task tolerates its failing commands; it is "+statusName(rs)+" after Schedule returned", cas)
	}
	for _, s := range st {
		if rs := s.ReadStatus(); rs == scheduler.StatusWaiting || rs == scheduler.StatusRunning {
			out.Viol("C03", "stage-left-"+strings.ToLower(statusName(rs)), "hook-failure pipeline: stage "+s.Name+" is "+statusName(rs)+" after Schedule returned", cas)
		}
	}
	lockedFinish(sch.Finish)
	out.Count("executions", 1)
	out.Count("hook_failure_pipelines", 1)
	out.Nontrivial("C03", fmt.Sprint("hook-failure", idx))
}

// runLingeringCondition: stages x and y wait for each other (bounded); x has a stage-level condition whose script
// starts a long-lived background child and exits 0 immediately. The condition has been evaluated once it returns.
func runLingeringCondition(a args, idx int) {
	dir := filepath.Join(a.Work, fmt.Sprintf("lingercond.%d", idx))
	os.MkdirAll(dir, 0o755)
	defer os.RemoveAll(dir)
	script := dir + "/cond.sh"
	h.WriteExec(script, []byte(fmt.Sprintf("#!/bin/sh\n(sleep 40 & echo $! >> '%s/pids') \nexit 0\n", dir)), 0o755)
	defer func() {
		for _, f := range strings.Fields(h.ReadFile(dir + "/pids")) {
			if p, e := strconv.Atoi(f); e == nil && p > 1 {
				if pr, e2 := os.FindProcess(p); e2 == nil {
					pr.Kill()
				}
			}
		}
	}()
	wait := func(self, other string) string {
		return fmt.Sprintf(": > '%s/started.%s'; n=0; while [ ! -e '%s/started.%s' ]; do sleep 0.01; n=$((n+1)); if [ $n -gt 1000 ]; then exit 1; fi; done", dir, self, dir, other)
	}
	tx, ty := task.FromCommands(wait("x", "y")), task.FromCommands(wait("y", "x"))
	tx.Name, ty.Name = "x", "y"
	stages := []*scheduler.Stage{{Name: "x", Task: tx, Condition: script}, {Name: "y", Task: ty}}
	if idx%2 == 1 {
		stages[0], stages[1] = stages[1], stages[0]
	}
	g, err := scheduler.NewExecutionGraph(stages...)
	if err != nil {
		return
	}
	out.Begin(fmt.Sprintf("lingering-condition#%d", idx))
	tr := newQuietRunner()
	sch := scheduler.NewScheduler(tr)
	sch.VerifSetPause(time.Millisecond)
	done := make(chan error, 1)
	go func() { done <- sch.Schedule(g) }()
	cas := map[string]interface{}{"condition_script": "(sleep 40 &); exit 0"}
	select {
	case err := <-done:
		if err != nil {
			out.Viol("C04", "barrier-pipeline-failed/lingering-condition", fmt.Sprintf("two independent stages that wait for each other did not run at the same time although the condition of one of them had returned: %v", err), cas)
			out.Viol("C03", "schedule-held-up-by-a-returned-condition", "the scheduling loop was held up by a stage condition whose executable had already exited (it left a background child behind)", cas)
		}
	case <-time.After(60 * time.Second):
		out.Viol("C03", "schedule-did-not-return/lingering-condition", "pipeline with a stage condition that leaves a background child behind did not return within 60 s", cas)
		return
	}
	lockedFinish(sch.Finish)
	out.Count("executions", 1)
	out.Count("lingering_condition_pipelines", 1)
	out.Nontrivial("C04", fmt.Sprint("lingering-condition", idx))
	out.Nontrivial("C03", fmt.Sprint("lingering-condition", idx))
}

func runTimeoutDep(a args, idx int) {
	dir := filepath.Join(a.Work, fmt.Sprintf("todep.%d", idx))
	os.MkdirAll(dir, 0o755)
	defer os.RemoveAll(dir)
	trace := dir + "/trace"
	shape := idx % 3
	var script string
	switch shape {
	case 0: // external shell that ignores the interrupt and keeps reporting
		script = fmt.Sprintf("trap '' INT\ni=0\nwhile [ $i -lt 40 ]; do printf 'TICK\\n' >> '%s'; sleep 0.1; i=$((i+1)); done\n", trace)
	case 1: // a command that winds down for a moment after the interrupt
		script = fmt.Sprintf("trap 'sleep 0.6; printf \"LATE\\n\" >> \"%s\"; exit 1' INT\nprintf 'TICK\\n' >> '%s'\nsleep 20 &\nwait\n", trace, trace)
	default:
		script = fmt.Sprintf("trap '' INT\nprintf 'TICK\\n' >> '%s'\nsleep 1.2\nprintf 'LATE\\n' >> '%s'\n", trace, trace)
	}
	h.WriteExec(dir+"/dep.sh", []byte(script), 0o755)
	body := fmt.Sprintf("sh '%s/dep.sh'", dir)
	dep := task.FromCommands(body)
	dep.Name = "dep"
	to := 250 * time.Millisecond
	dep.Timeout = &to
	child := task.FromCommands(fmt.Sprintf("printf 'CHILD\n' >> '%s'", trace))
	child.Name = "child"
	g, err := scheduler.NewExecutionGraph(
		&scheduler.Stage{Name: "dep", Task: dep, AllowFailure: true},
		&scheduler.Stage{Name: "child", Task: child, DependsOn: []string{"dep"}})
	if err != nil {
		return
	}
	out.Begin(fmt.Sprintf("timeout-dependency#%d shape=%d", idx, shape))
	tr := newQuietRunner()
	sch := scheduler.NewScheduler(tr)
	sch.VerifSetPause(time.Millisecond)
	done := make(chan error, 1)
	go func() { done <- sch.Schedule(g) }()
	select {
	case <-done:
	case <-time.After(60 * time.Second):
		out.Inconclusive("C01", fmt.Sprintf("timeout-dependency pipeline #%d did not return within 60 s", idx))
		return
	}
	lockedFinish(sch.Finish)
	time.Sleep(1500 * time.Millisecond) // anything the dependency's command still writes lands after CHILD
	toks := strings.Fields(h.ReadFile(trace))
	out.Count("executions", 1)
	out.Count("timeout_dependency_pipelines", 1)
	out.Count("events", int64(len(toks)))
	cas := map[string]interface{}{"shape": shape, "trace": toks}
	seenChild := false
	for _, t := range toks {
		if t == "CHILD" {
			seenChild = true
		} else if seenChild {
			out.Viol("C01", "dependant-started-while-dependency-command-still-running", fmt.Sprintf("the dependency's command wrote %s after the dependant had started (trace %v)", t, toks), cas)
			break
		}
	}
	if !seenChild {
		out.Viol("C02", "ran-set-differs-from-model", "the dependant of a stage with allow_failure did not run after the stage's task timed out", cas)
	}
	out.Nontrivial("C01", fmt.Sprint("timeout-dependency", idx))
}

func runFree(a args, spec *graphSpec, r *h.Rand, idx int) {
	trace := filepath.Join(a.Work, fmt.Sprintf("trace.%d", idx))
	os.Remove(trace)
	defer os.Remove(trace)
	stages := map[string]*scheduler.Stage{}
	g, err := buildFree(spec, "", trace, r, stages)
	if err != nil {
		out.Count("rejected_by_graph_builder", 1)
		return
	}
	out.Begin(fmt.Sprintf("schedfree#%d", idx))
	all := map[string]*mstage{}
	model := newModel(spec, "", nil, all)
	tr := newQuietRunner()
	sch := scheduler.NewScheduler(tr)
	sch.VerifSetPause(time.Millisecond)
	done := make(chan error, 1)
	go func() { done <- sch.Schedule(g) }()
	var serr error
	select {
	case serr = <-done:
	case <-time.After(60 * time.Second):
		out.Inconclusive("C03", fmt.Sprintf("free-running pipeline #%d did not return within 60 s", idx))
		return
	}
	lockedFinish(sch.Finish)
	out.Count("executions", 1)
	toks := strings.Fields(h.ReadFile(trace))
	out.Count("events", int64(len(toks)))
	pos := map[string]int{}
	cnt := map[string]int{}
	for i, t := range toks {
		if _, ok := pos[t]; !ok {
			pos[t] = i
		}
		cnt[t]++
	}
	cas := map[string]interface{}{"graph": spec, "trace": toks}
	// model: replay the trace's E: order as the completion order
	model.settle()
	for _, t := range toks {
		if strings.HasPrefix(t, "E:") {
			if s := all[t[2:]]; s != nil && s.inner == nil {
				s.released = true
				s.finish()
				model.settle()
			}
		}
	}
	overlap := false
	open := 0
	for _, t := range toks {
		if strings.HasPrefix(t, "S:") {
			open++
			if open > 1 {
				overlap = true
			}
		} else {
			open--
		}
	}
	for name, s := range all {
		if cnt["S:"+name] > 1 {
			out.Viol("C03", "stage-run-twice", fmt.Sprintf("stage %s started %d times", name, cnt["S:"+name]), cas)
		}
		sp, started := pos["S:"+name]
		if started {
			for cur := s; cur != nil; cur = cur.g.parent {
				if cur != s && cur.inner != nil && len(cur.inner.also) > 0 {
					// the pipeline is included by several stages: it may run as soon as ONE of them has started, so the
					// dependencies of this particular includer say nothing about its inner stages
					break
				}
				for _, dn := range cur.spec.Deps {
					d := cur.g.by[dn]
					if d.spec.Outcome == oCondFalse {
						continue
					}
					// every leaf below d that started must have ended before
					for ln, l := range all {
						if l.inner != nil || !(ln == d.full || strings.HasPrefix(ln, d.full+"/")) {
							continue
						}
						if ls, ok := pos["S:"+ln]; ok {
							le, ok2 := pos["E:"+ln]
							if !ok2 || le > sp || ls > sp {
								out.Viol("C01", "start-before-dependency-finished", fmt.Sprintf("S:%s at %d but dependency task %s ended at %v", name, sp, ln, le), cas)
							}
						}
					}
					if d.inner == nil && !d.u {
						if _, ok := pos["E:"+d.full]; !ok {
							out.Viol("C01", "start-before-dependency-finished", fmt.Sprintf("%s started but its dependency %s never finished", name, d.full), cas)
						}
					}
				}
			}
		}
		if !s.u && !neverScheduled(s) {
			rs := stages[name].ReadStatus()
			if s.st == mFinal && rs != s.final {
				out.Viol("C02", "final-status-differs-from-model", fmt.Sprintf("free run: stage %s ended %s, statement requires %s", name, statusName(rs), statusName(s.final)), cas)
			}
			if rs == scheduler.StatusWaiting || rs == scheduler.StatusRunning {
				out.Viol("C03", "stage-left-"+strings.ToLower(statusName(rs)), fmt.Sprintf("free run: stage %s is %s after Schedule returned", name, statusName(rs)), cas)
			}
			if s.inner == nil && s.st == mFinal {
				shouldRun := s.released
				if shouldRun != started {
					out.Viol("C02", "ran-set-differs-from-model", fmt.Sprintf("free run: stage %s started=%v, statement requires %v", name, started, shouldRun), cas)
				}
			}
		}
	}
	wantErr := false
	for _, s := range model.stages {
		if stages[s.full].ReadStatus() == scheduler.StatusError && !stages[s.full].AllowFailure {
			wantErr = true
		}
		if !s.u && s.st == mFinal && s.final == scheduler.StatusError {
			wantErr = true
		}
	}
	if wantErr != (serr != nil) {
		out.Viol("C02", "error-flag-differs", fmt.Sprintf("free run: Schedule error=%v, statement requires %v", serr != nil, wantErr), cas)
	}
	key := specKey(spec) + strings.Join(toks, " ")
	out.Distinct("interleavings", key)
	out.Nontrivial("C01", key)
	out.Nontrivial("C02", key)
	out.Nontrivial("C03", key)
	if overlap {
		out.Nontrivial("C04", key)
		out.Count("executions_with_overlap", 1)
	}
	out.Sample("schedfree", cas)
}

func runBarrier(a args, r *h.Rand, idx int) { runBarrierK(a, r, idx, r.Range(2, 6), false) }

// runBarrierK: k mutually waiting stages. upBarrier: every stage runs in its own execution context and the
// contexts' `up` commands wait for each other as well (bringing up one context must not hold back another stage).
func runBarrierK(a args, r *h.Rand, idx, k int, upBarrier bool) {
	dir := filepath.Join(a.Work, fmt.Sprintf("barrier.%d", idx))
	os.MkdirAll(dir, 0o755)
	defer os.RemoveAll(dir)
	diamond := r.Chance(35)
	var list []*scheduler.Stage
	var deps []string
	if diamond {
		t := task.FromCommands("true")
		t.Name = "top"
		list = append(list, &scheduler.Stage{Name: "top", Task: t})
		deps = []string{"top"}
	}
	var conds []string
	for i := 0; i < k; i++ {
		conds = append(conds, fmt.Sprintf("[ -e '%s/started.%d' ]", dir, i))
	}
	to := 10 * time.Second
	shared := r.Chance(50) // the stages use one and the same task; only the stage env tells them apart
	var sharedTask *task.Task
	if shared {
		sharedTask = task.FromCommands(fmt.Sprintf(": > \"%s/started.$IDX\"; while ! { %s; }; do sleep 0.01; done", dir, strings.Join(conds, " && ")))
		sharedTask.Name = "barrier"
		sharedTask.Timeout = &to
	}
	for i := 0; i < k; i++ {
		if shared {
			list = append(list, &scheduler.Stage{Name: fmt.Sprintf("b%d", i), Task: sharedTask, DependsOn: deps, Env: variables.FromMap(map[string]string{"IDX": fmt.Sprint(i)})})
			continue
		}
		t := task.FromCommands(fmt.Sprintf(": > '%s/started.%d'; while ! { %s; }; do sleep 0.01; done", dir, i, strings.Join(conds, " && ")))
		t.Name = fmt.Sprintf("b%d", i)
		t.Timeout = &to
		list = append(list, &scheduler.Stage{Name: t.Name, Task: t, DependsOn: deps})
	}
	if diamond {
		t := task.FromCommands("true")
		t.Name = "bottom"
		var d []string
		for i := 0; i < k; i++ {
			d = append(d, fmt.Sprintf("b%d", i))
		}
		list = append(list, &scheduler.Stage{Name: "bottom", Task: t, DependsOn: d})
	}
	g, err := scheduler.NewExecutionGraph(list...)
	if err != nil {
		out.Count("rejected_by_graph_builder", 1)
		return
	}
	out.Begin(fmt.Sprintf("barrier#%d k=%d diamond=%v up=%v", idx, k, diamond, upBarrier))
	br := newQuietRunner()
	namedCtx := r.Chance(40)
	if upBarrier {
		namedCtx = false
		ctxs := map[string]*runner.ExecutionContext{}
		var ups []string
		for i := 0; i < k; i++ {
			ups = append(ups, fmt.Sprintf("[ -e '%s/up.%d' ]", dir, i))
		}
		for i := 0; i < k; i++ {
			up := fmt.Sprintf(": > '%s/up.%d'; n=0; while ! { %s; }; do sleep 0.01; n=$((n+1)); if [ $n -gt 2000 ]; then exit 1; fi; done", dir, i, strings.Join(ups, " && "))
			ctxs[fmt.Sprintf("cx%d", i)] = runner.NewExecutionContext(&utils.Binary{}, "", variables.NewVariables(), []string{up}, nil, nil, nil)
		}
		br.SetContexts(ctxs)
		i := 0
		for _, st := range list {
			if strings.HasPrefix(st.Name, "b") && st.Name != "bottom" {
				if shared {
					// one task object cannot name k contexts: give every stage its own copy
					cp := *st.Task
					st.Task = &cp
				}
				st.Task.Context = fmt.Sprintf("cx%d", i)
				i++
			}
		}
	}
	if namedCtx {
		// all barrier tasks use one named context that has before/after hooks: they still have to overlap
		br.SetContexts(map[string]*runner.ExecutionContext{"shared-ctx": runner.NewExecutionContext(&utils.Binary{}, "", variables.NewVariables(), []string{"true"}, []string{"true"}, []string{"true"}, []string{"true"})})
		for _, st := range list {
			if st.Task != nil && strings.HasPrefix(st.Name, "b") && st.Name != "bottom" {
				st.Task.Context = "shared-ctx"
			}
		}
	}
	// decorated output and a task that owns the terminal: the others still run beside it
	prefixedInteractive := !upBarrier && !shared && k <= 6 && idx%3 == 1
	if prefixedInteractive {
		br.OutputFormat = "prefixed"
		if f, err := os.Open("/dev/null"); err == nil {
			defer f.Close()
			br.Stdin = f
		}
		for _, st := range list {
			if st.Name == "b0" {
				st.Task.Interactive = true
			} else if st.Task != nil {
				st.Task.Commands = append([]string{"echo starting " + st.Name}, st.Task.Commands...)
			}
		}
	}
	sch := scheduler.NewScheduler(br)
	sch.VerifSetPause(time.Millisecond)
	done := make(chan error, 1)
	go func() { done <- sch.Schedule(g) }()
	cas := map[string]interface{}{"prefixed_output_and_one_interactive_task": prefixedInteractive, "barrier_stages": k, "diamond": diamond, "stages_share_one_task": shared, "tasks_in_one_named_context_with_hooks": namedCtx, "context_up_commands_wait_for_each_other": upBarrier}
	select {
	case err := <-done:
		out.Count("executions", 1)
		out.Count("barrier_pipelines", 1)
		if err != nil {
			out.Viol("C04", "barrier-pipeline-failed", fmt.Sprintf("%d independent stages that wait for each other did not all run at the same time: %v", k, err), cas)
		}
		out.Nontrivial("C04", fmt.Sprint("barrier", k, diamond, idx, upBarrier))
		if upBarrier {
			out.Count("barrier_pipelines_with_context_up_barrier", 1)
		}
		if k > 32 {
			out.Count("barrier_pipelines_wider_than_32", 1)
		}
	case <-time.After(90 * time.Second):
		out.Viol("C04", "barrier-pipeline-hung", fmt.Sprintf("pipeline of %d mutually waiting stages did not return in 90 s", k), cas)
	}
}

func init() { modes["schedfree"] = modeSchedFree }
