package main

// C12: cancellation is safe and prompt at any moment. One case per process
// (`vworker cancel1 spec=<json>`): the parent sees crashes and dead-locks.

import (
	"encoding/json"
	"fmt"
	"os"
	"path/filepath"
	"runtime"
	"strconv"
	"strings"
	"sync"
	"time"

	"github.com/taskctl/taskctl/pkg/runner"
	"github.com/taskctl/taskctl/pkg/scheduler"
	"github.com/taskctl/taskctl/pkg/task"
	"github.com/taskctl/taskctl/pkg/utils"
	"github.com/taskctl/taskctl/pkg/variables"

	"verif/internal/h"
)

type cancelSpec struct {
	Idx         int    `json:"idx"`
	K           int    `json:"in_flight"` // tasks in flight when Cancel is issued
	W           int    `json:"waiting"`   // stages still waiting (pipeline mode)
	Mode        string `json:"mode"`      // direct | pipeline
	Point       string `json:"point"`     // before-run | before-hook | during-command | between-commands | store | after-finished | cond-error
	Cancels     string `json:"cancels"`   // once | twice | concurrent
	Via         string `json:"via"`       // runner | scheduler
	Cmd         string `json:"cmd"`       // sleep | busy | ignore-int | builtin
	Jitter      int    `json:"jitter_us"` // free-running variant: cancel after this many microseconds instead of at a hook
	Allow       bool   `json:"allow_failure"`
	Interactive bool   `json:"interactive,omitempty"`
	Shared      bool   `json:"included_twice,omitempty"` // with Nested: two stages of the outer pipeline include it
	Prelude     string `json:"prelude,omitempty"`        // a run that fails early on the same runner before the scenario starts
	TaskTimeout bool   `json:"task_timeout,omitempty"`   // the tasks have a (long) timeout of their own
	Nested      bool   `json:"nested,omitempty"`         // the whole pipeline is included by a stage of an outer pipeline
}

type cancelHarness struct {
	mu       sync.Mutex
	cond     *sync.Cond
	arrived  map[string]int // point -> tasks parked there
	released bool
	blockAt  string
	signal   bool // runner.cancel.signalled seen
}

func (c *cancelHarness) handler(point string, a ...interface{}) {
	c.mu.Lock()
	defer c.mu.Unlock()
	if point == "runner.cancel.signalled" {
		c.signal = true
		c.cond.Broadcast()
		return
	}
	key := point
	if point == "runner.job.after" || point == "runner.job.before" {
		// only the first command's boundary is an injection point
		t := a[0].(*task.Task)
		_ = t
	}
	if key != c.blockAt || c.released {
		return
	}
	if point == "runner.job.after" {
		// block only once per task: after its first command
		t := a[0].(*task.Task)
		k := "seen-after:" + t.Name
		if c.arrived[k] > 0 {
			return
		}
		c.arrived[k]++
	}
	c.arrived[key]++
	c.cond.Broadcast()
	for !c.released {
		c.cond.Wait()
	}
}

func (c *cancelHarness) waitArrived(point string, n int, d time.Duration) bool {
	deadline := time.Now().Add(d)
	c.mu.Lock()
	defer c.mu.Unlock()
	for c.arrived[point] < n {
		if time.Now().After(deadline) {
			return false
		}
		c.mu.Unlock()
		time.Sleep(2 * time.Millisecond)
		c.mu.Lock()
	}
	return true
}

func (c *cancelHarness) release() {
	c.mu.Lock()
	c.released = true
	c.cond.Broadcast()
	c.mu.Unlock()
}

func appendTrace(path, tok string) {
	f, err := os.OpenFile(path, os.O_APPEND|os.O_CREATE|os.O_WRONLY, 0o644)
	if err == nil {
		f.WriteString(tok + "\n")
		f.Close()
	}
}

func blocker(kind, pidfile string) string {
	switch kind {
	case "busy", "builtin":
		return "i=0; while [ $i -lt 6000000 ]; do i=$((i+1)); done"
	case "ignore-int":
		return fmt.Sprintf("sh -c 'trap \"\" INT; echo $$ >> %s; exec sleep 30'", pidfile)
	case "trap-exit":
		// handles the interrupt itself and leaves with a status of its own (what a careful script does)
		return fmt.Sprintf("sh -c 'echo $$ >> %s; trap \"kill \\$p; exit 7\" INT TERM; sleep 30 & p=$!; wait $p'", pidfile)
	case "ticker":
		// ignores the interrupt and keeps reporting that it is alive (TICK tokens in the trace next to the pid file)
		return fmt.Sprintf("sh -c 'trap \"\" INT; echo $$ >> %s; i=0; while [ $i -lt 200 ]; do printf \"TICK\\n\" >> %s; sleep 0.1; i=$((i+1)); done'", pidfile, strings.TrimSuffix(pidfile, "pids")+"trace")
	}
	return fmt.Sprintf("sh -c 'echo $$ >> %s; exec sleep 30'", pidfile)
}

const cancelBound = 2*time.Second + 10*time.Second

func dumpAndClassify() (string, bool) {
	buf := make([]byte, 4<<20)
	buf = buf[:runtime.Stack(buf, true)]
	d := string(buf)
	// goroutines of the harness itself (main.*) are waiting by construction: drop them before classifying
	var keep []string
	for _, b := range strings.Split(d, "\n\n") {
		if strings.Contains(b, "taskctl/pkg/") {
			keep = append(keep, b)
		}
	}
	dd := strings.Join(keep, "\n\n")
	return dd, len(keep) > 0 && allParked(keep)
}

func allParked(blocks []string) bool {
	for _, b := range blocks {
		hdr := b
		if i := strings.IndexByte(b, '\n'); i > 0 {
			hdr = b[:i]
		}
		ok := false
		for _, st := range []string{"chan receive", "chan send", "select", "sync.Mutex", "sync.RWMutex", "semacquire", "sync.Cond", "sync.WaitGroup"} {
			if strings.Contains(hdr, st) {
				ok = true
			}
		}
		if !ok {
			return false
		}
	}
	return true
}

func modeCancel1(a args) {
	var sp cancelSpec
	if err := json.Unmarshal([]byte(a.Extra["spec"]), &sp); err != nil {
		panic(err)
	}
	dir := filepath.Join(a.Work, fmt.Sprintf("cancel.%d", sp.Idx))
	os.MkdirAll(dir, 0o755)
	defer os.RemoveAll(dir)
	trace, pidfile := dir+"/trace", dir+"/pids"
	tok := func(s string) string { return fmt.Sprintf("printf '%s\\n' >> '%s'", s, trace) }
	ch := &cancelHarness{arrived: map[string]int{}}
	ch.cond = sync.NewCond(&ch.mu)
	switch sp.Point {
	case "before-hook":
		ch.blockAt = "runner.before.enter"
	case "between-commands":
		ch.blockAt = "runner.job.after"
	case "store":
		ch.blockAt = "runner.store.before"
	}
	runner.VerifSetHandler(ch.handler)

	tr := newQuietRunner()
	if sp.Interactive {
		// a terminal nobody types on: the read end goes to the commands, the write end stays open in this process
		pr, pw, err := os.Pipe()
		if err != nil {
			panic(err)
		}
		defer pw.Close()
		tr.Stdin = pr
	}
	// a named context nothing has used yet when the cancellation completes: bringing it up is starting a command
	freshCtx := runner.NewExecutionContext(&utils.Binary{}, "", variables.NewVariables(), []string{tok("UP:fresh")}, []string{tok("DOWN:fresh")}, []string{tok("CB:fresh")}, nil)
	tr.SetContexts(map[string]*runner.ExecutionContext{"fresh": freshCtx})
	if sp.Prelude != "" {
		// an earlier run on this runner ended before it really began (unknown context, context that cannot be
		// brought up, failing context hook): nothing of it is in flight afterwards
		tr.SetContexts(map[string]*runner.ExecutionContext{
			"fresh":      freshCtx,
			"bad-up":     runner.NewExecutionContext(&utils.Binary{}, "", variables.NewVariables(), []string{"exit 1"}, nil, nil, nil),
			"bad-before": runner.NewExecutionContext(&utils.Binary{}, "", variables.NewVariables(), nil, nil, []string{"exit 1"}, nil),
		})
		pt := task.FromCommands("true")
		pt.Name = "prelude"
		pt.Context = map[string]string{"unknown-context": "no-such-context", "up-fails": "bad-up", "before-fails": "bad-before"}[sp.Prelude]
		if err := tr.Run(pt); err == nil {
			out.Inconclusive(a.Prop, "prelude run ("+sp.Prelude+") did not fail")
		}
	}
	mkTask := func(id string) *task.Task {
		t := task.NewTask()
		t.Name = id
		t.Interactive = sp.Interactive
		switch sp.Point {
		case "during-command", "free", "cond-error":
			t.Commands = []string{tok("S:"+id+":0") + "; " + blocker(sp.Cmd, pidfile) + "; " + tok("E:"+id+":0"), tok("S:"+id+":1") + "; " + tok("E:"+id+":1")}
		default:
			t.Commands = []string{tok("S:"+id+":0") + "; " + tok("E:"+id+":0"), tok("S:"+id+":1") + "; " + tok("E:"+id+":1")}
		}
		if sp.Point == "before-hook" {
			t.Before = []string{tok("B:" + id)}
		}
		if sp.Point == "during-condition" {
			// the cancellation arrives while the task's own condition (a command like any other) is being evaluated
			t.Condition = tok("K:"+id) + "; " + blocker(sp.Cmd, pidfile)
		}
		if sp.Point == "after-hook" {
			// the cancellation arrives while the task's after-hook is running
			t.After = []string{tok("A:"+id+":S") + "; " + blocker(sp.Cmd, pidfile) + "; " + tok("A:"+id+":E"), tok("A2:" + id)}
		}
		t.AllowFailure = sp.Allow
		if sp.TaskTimeout {
			to := 90 * time.Second
			if sp.Point == "free" && sp.Cmd == "ticker" {
				to = 0 // a timeout that is present and zero: whatever it means, Cancel still ends the task
			}
			t.Timeout = &to
		}
		return t
	}
	var tasks []*task.Task
	var waiting []*task.Task
	for i := 0; i < sp.K; i++ {
		tasks = append(tasks, mkTask(fmt.Sprintf("t%d", i)))
	}
	for i := 0; i < sp.W; i++ {
		waiting = append(waiting, mkTask(fmt.Sprintf("w%d", i)))
	}
	runErr := map[string]error{}
	runRet := map[string]bool{}
	var rmu sync.Mutex
	var wg sync.WaitGroup
	var sch *scheduler.Scheduler
	var g *scheduler.ExecutionGraph
	schedDone := make(chan error, 1)
	condLink := dir + "/cond"
	start := func() {
		if sp.Mode == "pipeline" {
			var st []*scheduler.Stage
			var deps []string
			for _, t := range tasks {
				st = append(st, &scheduler.Stage{Name: t.Name, Task: t})
				deps = append(deps, t.Name)
			}
			for wi, t := range waiting {
				s := &scheduler.Stage{Name: t.Name, Task: t, DependsOn: deps}
				if sp.Point == "cond-error" || sp.Via == "cond" {
					os.Symlink("/bin/true", condLink)
					s.Condition = condLink
				} else if sp.Idx%2 == 0 {
					// a stage-level condition is a command too: once cancellation has completed it must not be
					// started again. The script reports every evaluation.
					script := fmt.Sprintf("%s/cond.%d.sh", dir, wi)
					h.WriteExec(script, []byte(fmt.Sprintf("#!/bin/sh\nprintf 'COND:%s\\n' >> '%s'\nexit 0\n", t.Name, trace)), 0o755)
					s.Condition = script
				}
				st = append(st, s)
			}
			var err error
			g, err = scheduler.NewExecutionGraph(st...)
			if err != nil {
				panic(err)
			}
			sch = scheduler.NewScheduler(tr)
			sch.VerifSetPause(time.Millisecond)
			if sp.Idx%2 == 0 && sp.Point != "cond-error" && sp.Via != "cond" {
				// mark the beginning of every scheduling pass in the trace: a condition evaluated in a pass that
				// BEGAN after Cancel had returned is a command started after cancellation completed
				sch.VerifSetPause(4 * time.Millisecond)
				inner := g
				scheduler.VerifSetHandler(func(point string, hargs ...interface{}) {
					// only passes of the loop that works on the pipeline with the conditions count (when that
					// pipeline is included by an outer one, the outer loop makes passes of its own)
					if point == "sched.pass" && len(hargs) > 1 {
						if hg, ok := hargs[1].(*scheduler.ExecutionGraph); ok && hg == inner {
							appendTrace(trace, "PASS")
						}
					}
				})
			}
			top := g
			if sp.Nested {
				outer := []*scheduler.Stage{{Name: "included", Pipeline: g}}
				if sp.Shared {
					outer = append(outer, &scheduler.Stage{Name: "included-again", Pipeline: g})
				}
				top, err = scheduler.NewExecutionGraph(outer...)
				if err != nil {
					panic(err)
				}
			}
			go func() { schedDone <- sch.Schedule(top) }()
		} else {
			for _, t := range tasks {
				wg.Add(1)
				go func(t *task.Task) {
					defer wg.Done()
					err := tr.Run(t)
					rmu.Lock()
					runErr[t.Name], runRet[t.Name] = err, true
					rmu.Unlock()
				}(t)
			}
		}
	}
	cas := map[string]interface{}{"spec": sp}
	fail := func(sig, what string) {
		cas["trace"] = strings.Fields(h.ReadFile(trace))
		out.Viol(a.Prop, sig, what, cas)
	}
	timedOut := func(what string) {
		dump, dead := dumpAndClassify()
		cas["goroutines"] = dump
		if dead {
			fail("deadlock/"+what+fmt.Sprintf("/in-flight=%d", sp.K), what+" did not return within "+cancelBound.String()+": every taskctl goroutine is parked (dead-lock)")
		} else {
			out.line(map[string]interface{}{"k": "suspect", "what": what})
		}
		out.Flush()
		os.Exit(0)
	}
	doCancel := func() {
		appendTrace(trace, "CANCEL_CALL")
		n := 1
		if sp.Cancels == "concurrent" {
			n = 3
		}
		ret := make(chan struct{}, n)
		for i := 0; i < n; i++ {
			go func() {
				if sp.Via == "scheduler" && sch != nil {
					sch.Cancel()
				} else {
					tr.Cancel()
				}
				ret <- struct{}{}
			}()
		}
		if ch.blockAt != "" {
			// the runs are parked at a hook: let them go once the runner's context is cancelled
			deadline := time.Now().Add(cancelBound)
			ch.mu.Lock()
			for !ch.signal && time.Now().Before(deadline) {
				ch.mu.Unlock()
				time.Sleep(time.Millisecond)
				ch.mu.Lock()
			}
			ch.mu.Unlock()
			ch.release()
		}
		for i := 0; i < n; i++ {
			select {
			case <-ret:
				if i == 0 && n > 1 {
					// the first of several concurrent callers is back: for that caller cancellation has completed
					appendTrace(trace, "FIRST_CANCEL_RET")
				}
			case <-time.After(cancelBound):
				timedOut("Cancel")
			}
		}
		appendTrace(trace, "CANCEL_RET")
		if sp.Cancels == "twice" {
			r2 := make(chan struct{})
			go func() { tr.Cancel(); close(r2) }()
			select {
			case <-r2:
			case <-time.After(cancelBound):
				timedOut("second Cancel")
			}
		}
	}

	switch sp.Point {
	case "before-run":
		doCancel()
		start()
	case "after-finished":
		start()
	case "cond-error":
		start()
	default:
		start()
	}
	// ---- reach the injection point
	switch sp.Point {
	case "before-hook", "between-commands", "store":
		if sp.K > 0 && !ch.waitArrived(ch.blockAt, sp.K, 15*time.Second) {
			out.Inconclusive(a.Prop, fmt.Sprintf("hook %s was not reached by %d tasks", ch.blockAt, sp.K))
			ch.release()
			return
		}
		doCancel()
	case "during-command", "after-hook", "during-condition":
		deadline := time.Now().Add(15 * time.Second)
		for {
			n := 0
			for _, f := range strings.Fields(h.ReadFile(trace)) {
				if sp.Point == "during-condition" && strings.HasPrefix(f, "K:") {
					n++
				}
				if sp.Point == "during-command" && strings.HasPrefix(f, "S:") && strings.HasSuffix(f, ":0") {
					n++
				}
				if sp.Point == "after-hook" && strings.HasPrefix(f, "A:") && strings.HasSuffix(f, ":S") {
					n++
				}
			}
			if n >= sp.K {
				break
			}
			if time.Now().After(deadline) {
				out.Inconclusive(a.Prop, "commands did not start")
				return
			}
			time.Sleep(2 * time.Millisecond)
		}
		time.Sleep(time.Duration(sp.Jitter) * time.Microsecond)
		doCancel()
	case "free":
		time.Sleep(time.Duration(sp.Jitter) * time.Microsecond)
		doCancel()
	case "after-finished":
		if sp.Mode == "pipeline" {
			select {
			case <-schedDone:
			case <-time.After(30 * time.Second):
				timedOut("Schedule (uncancelled)")
			}
			schedDone <- nil
		} else {
			wg.Wait()
		}
		doCancel()
	case "cond-error":
		// wait until the k tasks are running their blocker, then break the waiting stages' condition
		deadline := time.Now().Add(15 * time.Second)
		for {
			n := 0
			for _, f := range strings.Fields(h.ReadFile(trace)) {
				if strings.HasPrefix(f, "S:") && strings.HasSuffix(f, ":0") {
					n++
				}
			}
			if n >= sp.K || time.Now().After(deadline) {
				break
			}
			time.Sleep(2 * time.Millisecond)
		}
		appendTrace(trace, "CANCEL_CALL")
		os.Remove(condLink)
	}
	// ---- everything has to return now
	if sp.Mode == "pipeline" {
		select {
		case err := <-schedDone:
			cas["schedule_error"] = fmt.Sprint(err)
		case <-time.After(cancelBound + 5*time.Second):
			timedOut("Schedule")
		}
		if sp.Point == "cond-error" {
			appendTrace(trace, "CANCEL_RET")
		}
	} else {
		d := make(chan struct{})
		go func() { wg.Wait(); close(d) }()
		select {
		case <-d:
		case <-time.After(cancelBound + 5*time.Second):
			timedOut("Run")
		}
	}
	// a run started after cancellation completed must fail without executing anything
	late := mkTask("late")
	late.Context = "fresh"
	lateRet := make(chan error, 1)
	go func() { lateRet <- tr.Run(late) }()
	select {
	case err := <-lateRet:
		if err == nil {
			fail("run-after-cancel-succeeded", "a task started after Cancel had returned reported success")
		}
	case <-time.After(cancelBound):
		timedOut("Run after Cancel")
	}
	// ... and cancelling again afterwards (the refused run left nothing in flight) returns as well
	again := make(chan struct{})
	go func() {
		if sp.Via == "scheduler" && sch != nil {
			sch.Cancel()
		} else {
			tr.Cancel()
		}
		close(again)
	}()
	select {
	case <-again:
	case <-time.After(cancelBound):
		timedOut("Cancel after a refused run")
	}
	time.Sleep(20 * time.Millisecond)
	if sp.Cmd == "ticker" {
		time.Sleep(500 * time.Millisecond) // a command that is still alive reports at least four more times
	}

	// ---- offline checks over the trace
	toks := strings.Fields(h.ReadFile(trace))
	cas["trace"] = toks
	out.Count("cases", 1)
	out.Count("events", int64(len(toks)))
	pos := map[string]int{}
	for i, t := range toks {
		if _, ok := pos[t]; !ok {
			pos[t] = i
		}
	}
	cret, haveRet := pos["CANCEL_RET"]
	ccall := pos["CANCEL_CALL"]
	if haveRet {
		for i, t := range toks {
			// only when the scheduler itself was cancelled: a scheduler that was not told about a cancelled runner
			// keeps evaluating conditions, which is not what the statement is about
			if sp.Via == "scheduler" && sp.Point != "before-run" && i > cret && strings.HasPrefix(t, "COND:") {
				// the pass that was under way when Cancel returned may finish its evaluations; a pass that began
				// afterwards must not evaluate anything
				newPass := false
				for _, u := range toks[cret+1 : i] {
					if u == "PASS" {
						newPass = true
					}
				}
				if newPass {
					fail("condition-evaluated-after-cancel-returned", fmt.Sprintf("stage condition %s was executed in a scheduling pass that began after CANCEL_RET", t))
				}
			}
			if fr, ok := pos["FIRST_CANCEL_RET"]; ok && i > fr && t == "TICK" {
				fail("command-still-running-after-cancel-returned/one-of-several-callers", "one of several concurrent Cancel calls returned while a command that was in flight was still running (it wrote to the trace afterwards)")
				break
			}
			if i > cret && t == "TICK" {
				fail("command-still-running-after-cancel-returned", "a command that was in flight wrote to the trace after CANCEL_RET: cancellation returned before the command had been terminated")
				break
			}
			if i > cret && (t == "UP:fresh" || t == "CB:fresh") {
				fail("command-started-after-cancel-returned/context-hook", fmt.Sprintf("token %s appears after CANCEL_RET: the run requested after the cancellation was refused, yet a command of its execution context was started", t))
			}
			if i > cret && (strings.HasPrefix(t, "S:") || strings.HasPrefix(t, "B:") || strings.HasPrefix(t, "A2:") || (strings.HasPrefix(t, "A:") && strings.HasSuffix(t, ":E"))) {
				fail("command-started-after-cancel-returned", fmt.Sprintf("token %s appears after CANCEL_RET", t))
			}
		}
	}
	// processes of interrupted commands must be gone
	for _, f := range strings.Fields(h.ReadFile(pidfile)) {
		if p, e := strconv.Atoi(f); e == nil {
			gone := false
			for i := 0; i < 30; i++ {
				if !alive(p) {
					gone = true
					break
				}
				time.Sleep(100 * time.Millisecond)
			}
			if !gone {
				fail("command-alive-after-cancel/"+sp.Cmd, fmt.Sprintf("process %d is still running 3 s after Cancel returned", p))
				if pr, e := os.FindProcess(p); e == nil {
					pr.Kill()
				}
			}
		}
	}
	// interrupted or not-started tasks must not report success
	all := append(append([]*task.Task{}, tasks...), waiting...)
	for _, t := range all {
		lastE, okE := pos["E:"+t.Name+":1"]
		finishedBefore := okE && lastE < ccall
		if finishedBefore {
			continue // don't-care: completed before cancellation was requested
		}
		complete := okE
		var reportedOK bool
		if sp.Mode == "pipeline" {
			st, _ := g.Node(t.Name)
			reportedOK = st.ReadStatus() == scheduler.StatusDone
			if st.ReadStatus() == scheduler.StatusRunning {
				fail("stage-running-after-cancelled-return", "stage "+t.Name+" still Running after Schedule returned")
			}
			t = st.Task
		} else {
			rmu.Lock()
			reportedOK = runRet[t.Name] && runErr[t.Name] == nil
			rmu.Unlock()
		}
		// (a task skipped by a condition that answered "no" is no success report; a condition that was itself cut
		// short by the cancellation answered nothing)
		if !complete && reportedOK && (!t.Skipped || sp.Point == "during-condition") {
			what := "interrupted"
			if _, started := pos["S:"+t.Name+":0"]; !started {
				what = "never started"
			}
			fail("interrupted-task-reported-success", fmt.Sprintf("task %s was %s by the cancellation but reported success", t.Name, what))
		}
	}
	out.Nontrivial(a.Prop, h.MustJSON(sp))
	out.Sample(a.Prop, cas)
}

// condSlack: the scheduling pass that was under way when Cancel returned may still evaluate the condition of
// each waiting stage once (the condition process may even have been started before); only evaluations beyond
// that are commands started after cancellation completed.
func condSlack(toks []string, cret int) int {
	seen := map[string]bool{}
	n := 0
	for _, t := range toks[cret+1:] {
		if strings.HasPrefix(t, "COND:") && !seen[t] {
			seen[t] = true
			n++
			continue
		}
		break
	}
	return n
}

// modeCancelRace: Run and Cancel released at the same instant, many rounds; the task has a condition that
// prints through the runner's stdout. Anything written after Cancel has returned is a command that was
// started after cancellation completed (or a run that Cancel did not wait for).
type lateSink struct {
	mu       sync.Mutex
	canceled bool
	late     int
}

func (l *lateSink) Write(p []byte) (int, error) {
	l.mu.Lock()
	if l.canceled {
		l.late++
	}
	l.mu.Unlock()
	return len(p), nil
}

func modeCancelRace(a args) {
	rounds := a.n(150000, 2000000) / maxInt(a.Shards, 1)
	rnd := h.NewRand(a.Seed, "cancelrace", fmt.Sprint(a.Shard))
	late := 0
	for i := 0; i < rounds && late == 0; i++ {
		r := newQuietRunner()
		sink := &lateSink{}
		r.Stdout = sink
		t := task.FromCommands("echo command")
		t.Name = "racer"
		t.Condition = "echo condition"
		start := make(chan struct{})
		done := make(chan struct{})
		skew := rnd.Intn(40)
		go func() {
			<-start
			r.Run(t)
			close(done)
		}()
		close(start)
		for k := 0; k < skew; k++ {
			runtime.Gosched()
		}
		r.Cancel()
		sink.mu.Lock()
		sink.canceled = true
		sink.mu.Unlock()
		<-done
		sink.mu.Lock()
		late += sink.late
		sink.mu.Unlock()
		out.Count("race_rounds", 1)
	}
	out.Count("cases", 1)
	if late > 0 {
		out.Viol(a.Prop, "output-after-cancel-returned", fmt.Sprintf("%d writes of a task's condition/commands arrived after Cancel had returned: a run that started alongside the cancellation was neither refused nor waited for", late), map[string]interface{}{"rounds": rounds})
	}
	out.Nontrivial(a.Prop, fmt.Sprint("cancelrace", a.Shard))
}

func init() {
	modes["cancel1"] = modeCancel1
	modes["cancelrace"] = modeCancelRace
}
