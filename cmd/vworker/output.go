package main

// C11: a task's output is captured exactly and handed to dependants.

import (
	"fmt"
	"os"
	"path/filepath"
	"strings"
	"sync"
	"sync/atomic"
	"time"

	"github.com/anishathalye/porcupine"

	"github.com/taskctl/taskctl/pkg/runner"
	"github.com/taskctl/taskctl/pkg/scheduler"
	"github.com/taskctl/taskctl/pkg/task"
	"github.com/taskctl/taskctl/pkg/utils"
	"github.com/taskctl/taskctl/pkg/variables"

	"verif/internal/h"
)

// derivedName: independent implementation of the naming rule of the statement.
func derivedName(task string) string {
	var b strings.Builder
	for _, r := range strings.ToUpper(task) + "_OUTPUT" {
		if r >= 'A' && r <= 'Z' || r >= 'a' && r <= 'z' || r >= '0' && r <= '9' || r == '_' {
			b.WriteRune(r)
		} else {
			b.WriteByte('_')
		}
	}
	return b.String()
}

func genContent(r *h.Rand, kind int) string {
	switch kind {
	case 0:
		return ""
	case 1:
		return "single line\n"
	case 2:
		return "no trailing newline"
	case 3:
		return "line one\nline two\n\nline four after an empty one\n"
	case 4:
		return "unicode: żółć — 日本語 ✓\nsecond\n"
	case 5:
		n := r.Range(1000, 65000)
		var b strings.Builder
		for b.Len() < n {
			fmt.Fprintf(&b, "%06d:%s\n", b.Len(), strings.Repeat("x", r.Intn(60)))
		}
		return b.String()
	case 6:
		return "tabs\tand  spaces   \n trailing spaces   \n"
	case 8:
		return "looks like a template: {{ .NoSuchVariable }} {{ and an unbalanced one\n{\"json\": {\"a\": {{1}}}}\n"
	default:
		var b strings.Builder
		for i := 0; i < r.Range(1, 20); i++ {
			for j := 0; j < r.Intn(30); j++ {
				b.WriteByte(byte(r.Range(32, 126)))
			}
			b.WriteByte('\n')
		}
		return b.String()
	}
}

func genTaskName(r *h.Rand) string {
	switch r.Intn(6) {
	case 0:
		return []string{"build", "lint:go", "my-task", "a.b", "x y", "1st", "UPPER", "mixedCase", "t@sk", "a/b", "dollar$", "paren(1)", "q?", "semi;colon", "tilde~", "plus+", "eq=sign", "hash#1"}[r.Intn(18)]
	default:
		n := r.Range(1, 10)
		var b strings.Builder
		for i := 0; i < n; i++ {
			c := byte(r.Range(33, 126))
			b.WriteByte(c)
		}
		return b.String()
	}
}

func runOutputCase(a args, idx int, r *h.Rand) {
	dir := filepath.Join(a.Work, fmt.Sprintf("out.%d", idx))
	os.MkdirAll(dir, 0o755)
	defer os.RemoveAll(dir)
	name := genTaskName(r)
	exportAs := ""
	if r.Chance(25) {
		exportAs = []string{"MY_EXPORT", "custom_name", "X1"}[r.Intn(3)]
	}
	ncmd, nvar := r.Range(1, 3), r.Intn(5)
	budget := 64 << 10 // the quantifier bounds outputs by 64 KiB
	prod := task.NewTask()
	prod.Name = name
	prod.ExportAs = exportAs
	var files []string
	for i := 0; i < ncmd; i++ {
		f := fmt.Sprintf("%s/content.%d", dir, i)
		content := genContent(r, r.Intn(10))
		if per := budget / (ncmd * maxInt(nvar, 1)); len(content) > per {
			content = content[:per]
		}
		os.WriteFile(f, []byte(content), 0o644)
		files = append(files, f)
		cmd := fmt.Sprintf("cat '%s'", f)
		if r.Chance(30) {
			cmd += "; printf 'noise on stderr\\n' >&2"
		}
		prod.Commands = append(prod.Commands, cmd)
	}
	failAllowed := r.Chance(20)
	if failAllowed {
		prod.AllowFailure = true
		prod.Commands[r.Intn(ncmd)] += "; exit 3"
	}
	for v := 0; v < nvar; v++ {
		prod.Variations = append(prod.Variations, map[string]string{"V": fmt.Sprint(v)})
	}
	want := ""
	for v := 0; v < maxInt(nvar, 1); v++ {
		for _, f := range files {
			want += h.ReadFile(f)
		}
	}
	varName := exportAs
	if varName == "" {
		varName = derivedName(name)
	}
	// consumers
	ncons := r.Range(1, 3)
	via := r.Chance(35)
	var stages []*scheduler.Stage
	stages = append(stages, &scheduler.Stage{Name: "producer", Task: prod})
	dep := "producer"
	if via {
		mid := task.FromCommands("true")
		mid.Name = "mid"
		stages = append(stages, &scheduler.Stage{Name: "mid", Task: mid, DependsOn: []string{"producer"}})
		dep = "mid"
	}
	for i := 0; i < ncons; i++ {
		ct := task.FromCommands(fmt.Sprintf("printenv '%s' > '%s/got.%d'; true", strings.ReplaceAll(varName, "'", "'\\''"), dir, i))
		ct.Name = fmt.Sprintf("consumer%d", i)
		stages = append(stages, &scheduler.Stage{Name: ct.Name, Task: ct, DependsOn: []string{dep}})
	}
	// a task that chains .Output between its commands
	chain := task.FromCommands("printf 'tok-%s' alpha", "printf 'saw[{{.Output}}]'", "printf 'then[{{.Output}}]'")
	chain.Name = "chain"
	stages = append(stages, &scheduler.Stage{Name: "chain", Task: chain})
	// the same across a tolerated failure: the next command still reads the failing command's output
	chain2 := task.FromCommands("printf 'first'", "printf 'second'; exit 3", "printf 'saw[{{.Output}}]'")
	chain2.Name = "chain-allow"
	chain2.AllowFailure = true
	stages = append(stages, &scheduler.Stage{Name: "chain-allow", Task: chain2})
	// an external command that writes to both streams concurrently: the captured stdout must still be exact,
	// and the next command's .Output must contain every line of both streams
	both := task.FromCommands("sh -c 'i=0; while [ $i -lt 400 ]; do echo o$i; echo e$i >&2; i=$((i+1)); done'", "printf '%s' '{{.Output}}' | wc -l")
	both.Name = "both-streams"
	stages = append(stages, &scheduler.Stage{Name: "both-streams", Task: both})
	rnd2 := r.Perm(len(stages))
	var shuffled []*scheduler.Stage
	for _, i := range rnd2 {
		shuffled = append(shuffled, stages[i])
	}
	g, err := scheduler.NewExecutionGraph(shuffled...)
	if err != nil {
		out.Count("rejected_by_graph_builder", 1)
		return
	}
	// a producer whose output contains an escape sequence cut by the boundary between two writes
	ansi := task.FromCommands("printf 'x \\033'", "printf '[31mred\\033[0m tail\\n'", "printf 'plain\\n'")
	ansi.Name = "ansi-producer"
	ansiGot := fmt.Sprintf("%s/got.ansi", dir)
	ansiCons := task.FromCommands(fmt.Sprintf("printenv ANSI_PRODUCER_OUTPUT > '%s'; true", ansiGot))
	ansiCons.Name = "ansi-consumer"
	// a task that was already run on its own, then reused by two stages that run at the same time
	reused := task.FromCommands("printf \"out-of-$WHO\\n\"; sleep 0.02; printf \"more-of-$WHO\\n\"")
	reused.Name = "reused"
	reusedStages := []*scheduler.Stage{
		{Name: "reuse-one", Task: reused, Env: variables.FromMap(map[string]string{"WHO": "one"})},
		{Name: "reuse-two", Task: reused, Env: variables.FromMap(map[string]string{"WHO": "two"})},
	}
	extra, err := scheduler.NewExecutionGraph(append(reusedStages,
		&scheduler.Stage{Name: "ansi-producer", Task: ansi}, &scheduler.Stage{Name: "ansi-consumer", Task: ansiCons, DependsOn: []string{"ansi-producer"}})...)
	if err != nil {
		panic(err)
	}
	out.Begin(fmt.Sprintf("output#%d name=%q", idx, name))
	tr := newQuietRunner()
	if idx%3 == 0 {
		tr.OutputFormat = "prefixed" // the recorded output must not depend on the output format
	}
	reused.Env = variables.FromMap(map[string]string{"WHO": "direct"})
	if e := tr.Run(reused); e != nil || reused.Output() != "out-of-direct\nmore-of-direct\n" {
		out.Viol("C11", "captured-output-differs/direct-run", fmt.Sprintf("direct run captured %q (err %v)", reused.Output(), e), nil)
	}
	reused.Env = variables.NewVariables()
	sch := scheduler.NewScheduler(tr)
	sch.VerifSetPause(300 * time.Microsecond)
	serr := sch.Schedule(g)
	if serr == nil {
		sch2 := scheduler.NewScheduler(tr)
		sch2.VerifSetPause(300 * time.Microsecond)
		if e := sch2.Schedule(extra); e != nil {
			out.Viol("C11", "pipeline-failed", fmt.Sprintf("second pipeline (reused task, escape sequences) failed: %v", e), nil)
		}
	}
	lockedFinish(sch.Finish)
	out.Count("cases", 1)
	cas := map[string]interface{}{"task_name": name, "export_as": exportAs, "variable": varName, "commands": prod.Commands, "variations": nvar, "want_len": len(want), "consumers": ncons, "via_intermediate": via}
	if serr != nil {
		out.Viol("C11", "pipeline-failed", fmt.Sprintf("producer/consumer pipeline failed: %v", serr), cas)
		return
	}
	pst, _ := g.Node("producer")
	got := pst.Task.Output()
	if got != want {
		sig := "captured-output-differs"
		switch {
		case strings.Contains(got, "noise on stderr"):
			sig = "captured-output-contains-stderr"
		case len(got) < len(want):
			sig = "captured-output-truncated"
		}
		cas["got_prefix"], cas["want_prefix"] = clip(got, 300), clip(want, 300)
		out.Viol("C11", sig, fmt.Sprintf("Task.Output() has %d bytes, the commands wrote %d bytes to stdout", len(got), len(want)), cas)
	}
	for i := 0; i < ncons; i++ {
		b, e := os.ReadFile(fmt.Sprintf("%s/got.%d", dir, i))
		seen := string(b)
		out.Count("events", 1)
		if e != nil || seen != want+"\n" {
			sig := "dependant-sees-wrong-output"
			if seen == "" || seen == "\n" {
				sig = "dependant-sees-no-output"
			}
			cas["consumer_saw_prefix"] = clip(seen, 300)
			cas["want_prefix"] = clip(want, 300)
			out.Viol("C11", sig, fmt.Sprintf("consumer%d read %d bytes from $%s, the producer's output has %d bytes", i, len(seen), varName, len(want)), cas)
		}
	}
	cst, _ := g.Node("chain")
	if o := cst.Task.Output(); o != "tok-alphasaw[tok-alpha]then[saw[tok-alpha]]" {
		out.Viol("C11", "output-chaining", fmt.Sprintf(".Output chaining gave %q", o), cas)
	}
	cst2, _ := g.Node("chain-allow")
	if o := cst2.Task.Output(); o != "firstsecondsaw[second]" {
		out.Viol("C11", "output-chaining/after-allowed-failure", fmt.Sprintf(".Output after a tolerated failing command gave %q, want %q", o, "firstsecondsaw[second]"), cas)
	}
	if serr == nil {
		for _, who := range []string{"one", "two"} {
			st, _ := extra.Node("reuse-" + who)
			if want := fmt.Sprintf("out-of-%s\nmore-of-%s\n", who, who); st.Task.Output() != want {
				out.Viol("C11", "captured-output-differs/task-reused-by-parallel-stages", fmt.Sprintf("stage reuse-%s (its task ran on its own before and is shared with a parallel stage) captured %q, its commands wrote %q", who, st.Task.Output(), want), cas)
			}
		}
		ast, _ := extra.Node("ansi-producer")
		wantAnsi := "x \x1b[31mred\x1b[0m tail\nplain\n"
		if ast.Task.Output() != wantAnsi {
			out.Viol("C11", "captured-output-differs/escape-sequence-split-across-writes/"+tr.OutputFormat, fmt.Sprintf("format %s: captured %q, the commands wrote %q", tr.OutputFormat, ast.Task.Output(), wantAnsi), cas)
		}
		if b, _ := os.ReadFile(ansiGot); string(b) != wantAnsi+"\n" {
			out.Viol("C11", "dependant-sees-wrong-output/escape-sequence-split-across-writes/"+tr.OutputFormat, fmt.Sprintf("format %s: the dependant read %q", tr.OutputFormat, string(b)), cas)
		}
	}
	bst, _ := g.Node("both-streams")
	wantBoth := ""
	for i := 0; i < 400; i++ {
		wantBoth += fmt.Sprintf("o%d\n", i)
	}
	if o := bst.Task.Output(); !strings.HasPrefix(o, wantBoth) || strings.TrimSpace(strings.TrimPrefix(o, wantBoth)) != "800" {
		got := strings.TrimSpace(strings.TrimPrefix(o, wantBoth))
		sig := "captured-output-differs/stdout-and-stderr-concurrently"
		if strings.HasPrefix(o, wantBoth) {
			sig = "output-chaining/stdout-and-stderr-concurrently"
		}
		out.Viol("C11", sig, fmt.Sprintf("command writing 400 lines to stdout and 400 to stderr: captured stdout exact=%v, next command saw %q lines in .Output (want 800)", strings.HasPrefix(o, wantBoth), got), cas)
	}
	out.Nontrivial("C11", fmt.Sprint(name, exportAs, len(want), ncmd, nvar, ncons, via))
	out.Sample("C11", cas)
}

func clip(s string, n int) string {
	if len(s) > n {
		return s[:n] + "…"
	}
	return s
}

// ---- porcupine: hand-off through the runner-wide env as a per-key register history

type regIn struct {
	Key   string
	Write bool
	Val   string
}

type histRunner struct {
	inner *runner.TaskRunner
	clock *int64
	mu    sync.Mutex
	ops   []porcupine.Operation
	meta  map[string]regIn // task name -> what it does
	dir   string
	cid   map[string]int
}

func (hr *histRunner) Run(t *task.Task) error {
	in, ok := hr.meta[t.Name]
	call := atomic.AddInt64(hr.clock, 1)
	err := hr.inner.Run(t)
	var outv interface{}
	if ok && !in.Write {
		b, _ := os.ReadFile(filepath.Join(hr.dir, "read."+t.Name))
		outv = string(b)
	}
	ret := atomic.AddInt64(hr.clock, 1)
	if ok {
		hr.mu.Lock()
		hr.ops = append(hr.ops, porcupine.Operation{ClientId: hr.cid[t.Name], Input: in, Call: call, Output: outv, Return: ret})
		hr.mu.Unlock()
	}
	return err
}
func (hr *histRunner) Cancel() { hr.inner.Cancel() }
func (hr *histRunner) Finish() { hr.inner.Finish() } // callers go through lockedFinish

var regModel = porcupine.Model{
	Partition: func(h []porcupine.Operation) [][]porcupine.Operation {
		m := map[string][]porcupine.Operation{}
		var keys []string
		for _, o := range h {
			k := o.Input.(regIn).Key
			if _, ok := m[k]; !ok {
				keys = append(keys, k)
			}
			m[k] = append(m[k], o)
		}
		var r [][]porcupine.Operation
		for _, k := range keys {
			r = append(r, m[k])
		}
		return r
	},
	Init: func() interface{} { return "" },
	Step: func(st, in, outv interface{}) (bool, interface{}) {
		i := in.(regIn)
		if i.Write {
			return true, i.Val
		}
		return outv.(string) == st.(string), st
	},
	DescribeOperation: func(in, outv interface{}) string {
		i := in.(regIn)
		if i.Write {
			return fmt.Sprintf("write(%s,%s)", i.Key, i.Val)
		}
		return fmt.Sprintf("read(%s)->%v", i.Key, outv)
	},
}

func runHistory(a args, idx int, r *h.Rand) {
	dir := filepath.Join(a.Work, fmt.Sprintf("hist.%d", idx))
	os.MkdirAll(dir, 0o755)
	defer os.RemoveAll(dir)
	var clock int64
	hr := &histRunner{inner: newQuietRunner(), clock: &clock, meta: map[string]regIn{}, dir: dir, cid: map[string]int{}}
	n := r.Range(6, 20)
	// half of the histories: readers (and some writers) run in a named execution context, one object for all of them
	named := r.Bool()
	if named {
		hr.inner.SetContexts(map[string]*runner.ExecutionContext{"nc": runner.NewExecutionContext(&utils.Binary{}, "", variables.FromMap(map[string]string{"CTXENV": "1"}), nil, nil, nil, nil)})
	}
	keys := []string{"K1_OUTPUT", "K2_OUTPUT"}
	var stages []*scheduler.Stage
	var names []string
	for i := 0; i < n; i++ {
		key := keys[r.Intn(2)]
		var t *task.Task
		name := fmt.Sprintf("op%d", i)
		if r.Chance(45) {
			val := fmt.Sprintf("id-%d-%d", idx, i)
			t = task.FromCommands(fmt.Sprintf("sleep 0.00%d; printf '%s'", r.Intn(9), val))
			t.ExportAs = key
			hr.meta[name] = regIn{Key: key, Write: true, Val: val}
		} else {
			t = task.FromCommands(fmt.Sprintf("printf '%%s' \"$%s\" > '%s/read.%s'; sleep 0.00%d", key, dir, name, r.Intn(9)))
			hr.meta[name] = regIn{Key: key}
		}
		t.Name = name
		if named && r.Chance(60) {
			t.Context = "nc"
		}
		hr.cid[name] = i
		st := &scheduler.Stage{Name: name, Task: t}
		for _, p := range names {
			if r.Chance(25) {
				st.DependsOn = append(st.DependsOn, p)
			}
		}
		names = append(names, name)
		stages = append(stages, st)
	}
	g, err := scheduler.NewExecutionGraph(stages...)
	if err != nil {
		out.Count("rejected_by_graph_builder", 1)
		return
	}
	out.Begin(fmt.Sprintf("history#%d", idx))
	sch := scheduler.NewScheduler(hr)
	sch.VerifSetPause(300 * time.Microsecond)
	if err := sch.Schedule(g); err != nil {
		out.Viol("C11", "history-pipeline-failed", fmt.Sprint(err), nil)
		return
	}
	lockedFinish(sch.Finish)
	res, info := porcupine.CheckOperationsVerbose(regModel, hr.ops, 60*time.Second)
	out.Count("histories", 1)
	out.Count("history_operations", int64(len(hr.ops)))
	var desc []string
	for _, o := range hr.ops {
		desc = append(desc, fmt.Sprintf("[%d,%d] %s", o.Call, o.Return, regModel.DescribeOperation(o.Input, o.Output)))
	}
	out.Distinct("histories", strings.Join(desc, ";"))
	switch res {
	case porcupine.Illegal:
		_ = info
		out.Viol("C11", "handoff-history-not-linearizable", "a dependant read a stale/unknown value of the producer's output variable: history is not linearizable as a per-key register", map[string]interface{}{"history": desc})
	case porcupine.Unknown:
		out.Inconclusive("C11", "porcupine timed out on a history of "+fmt.Sprint(len(hr.ops))+" operations")
	}
	if len(hr.ops) >= 6 {
		out.Nontrivial("C11", strings.Join(desc, ";"))
	}
	out.Sample("C11-history", desc)
}

func modeOutput(a args) {
	rnd := h.NewRand(a.Seed, "output")
	n := a.n(300, 6000)
	nh := a.n(40, 600)
	if a.Race {
		n, nh = a.n(80, 800), a.n(20, 200)
	}
	type job func()
	var jobs []job
	for i := 0; i < n; i++ {
		r := h.NewRand(int64(rnd.U64()), "o")
		i := i
		if a.mine(i) {
			jobs = append(jobs, func() { runOutputCase(a, i, r) })
		}
	}
	for i := 0; i < nh; i++ {
		r := h.NewRand(int64(rnd.U64()), "h")
		i := i
		if a.mine(i) {
			jobs = append(jobs, func() { runHistory(a, i, r) })
		}
	}
	h.Par(len(jobs), 4, func(i int) { jobs[i]() })
}

func init() { modes["output"] = modeOutput }
