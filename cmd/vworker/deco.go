package main

// C19: output decoration never loses or mixes task output.

import (
	"bytes"
	"encoding/json"
	"fmt"
	"io"
	"os"
	"path/filepath"
	"regexp"
	"strings"
	"sync"

	"github.com/taskctl/taskctl/pkg/output"
	"github.com/taskctl/taskctl/pkg/task"

	"verif/internal/h"
)

// the decorator's own notion of an ANSI sequence, re-stated here (the statement
// normalises with "ANSI escape sequences removed"; we use the same language)
const ansiPat = "[\u001B\u009B][[\\]()#;?]*(?:(?:(?:[a-zA-Z\\d]*(?:;[a-zA-Z\\d]*)*)?\u0007)|(?:(?:\\d{1,4}(?:;\\d{0,4})*)?[\\dA-PRZcf-ntqry=><~]))"

var ansiRx = regexp.MustCompile(ansiPat)

func normOut(b []byte) string {
	b = bytes.ReplaceAll(b, []byte("\r"), nil)
	b = bytes.ReplaceAll(b, []byte("\n"), nil)
	return string(ansiRx.ReplaceAll(b, nil))
}

type recSink struct {
	mu     sync.Mutex
	writes [][]byte
}

func (s *recSink) Write(p []byte) (int, error) {
	s.mu.Lock()
	s.writes = append(s.writes, append([]byte(nil), p...))
	s.mu.Unlock()
	return len(p), nil
}

// disjoint payload alphabets; none of them contains a byte that occurs inside the generated ANSI sequences
var alphabets = []string{"acdfg", "jknop", "qrsuv", "wxyzb", "ACDEF", "GIJLM", "NOPQR", "STUVW"}

// second stream of a task (stderr written concurrently with stdout): its own alphabet per task
var alphabets2 = []string{"@%&", "+_-", "^:.", ",|/", "!{}", "`*$", "\"'\\", "XYZ"}

var ansiSeqs = []string{"\x1b[31m", "\x1b[0m", "\x1b[1;32m", "\x1b[38;5;196m", "\x1b[2K", "\x1b[10;20H", "\x1b]0;title\x07", "\x1b[?25l", "\x1b(B", "\x1b[m", "\u009b31m", "\u009b1;32m", "\u009b0m", "\u009b38;5;196m"}

type decoStream struct {
	Task       int      `json:"task"`
	Chunks     []string `json:"chunks"`
	AnsiSplit  bool     `json:"ansi_split"` // some write boundary falls inside an ANSI sequence
	CrlfSplit  bool     `json:"crlf_split"`
	HasAnsi    bool     `json:"has_ansi"`
	LineSplits int      `json:"line_splits"`
}

func genStream(r *h.Rand, ti int, allowAnsiSplit bool) decoStream {
	return genStreamAlpha(r, ti, allowAnsiSplit, alphabets[ti], true)
}

func genStreamAlpha(r *h.Rand, ti int, allowAnsiSplit bool, alpha string, spaces bool) decoStream {
	var b bytes.Buffer
	type span struct{ a, b int }
	var ansiSpans []span
	nl := r.Range(1, 12)
	hasAnsi := false
	for l := 0; l < nl; l++ {
		n := 0
		switch r.Intn(8) {
		case 0:
			n = 0
		case 1:
			n = r.Range(4090, 4100) // around the bufio buffer size
		case 2:
			n = r.Range(1000, 10000)
		default:
			n = r.Range(1, 80)
		}
		for i := 0; i < n; i++ {
			if r.Chance(3) && n < 500 {
				s := ansiSeqs[r.Intn(len(ansiSeqs))]
				ansiSpans = append(ansiSpans, span{b.Len(), b.Len() + len(s)})
				b.WriteString(s)
				hasAnsi = true
			}
			if spaces && r.Chance(2) {
				b.WriteByte(' ')
			} else {
				b.WriteByte(alpha[r.Intn(len(alpha))])
			}
		}
		if n >= 4090 && n <= 4100 && r.Bool() {
			s := ansiSeqs[r.Intn(2)]
			ansiSpans = append(ansiSpans, span{b.Len(), b.Len() + len(s)})
			b.WriteString(s)
			hasAnsi = true
		}
		switch {
		case l == nl-1 && r.Chance(40): // unterminated tail
		case r.Chance(25):
			b.WriteString("\r\n")
		case r.Chance(8):
			b.WriteString("\r") // lone CR inside the stream
			b.WriteString("\n")
		default:
			b.WriteString("\n")
		}
	}
	data := b.Bytes()
	ds := decoStream{Task: ti, HasAnsi: hasAnsi}
	inside := func(p int) bool {
		for _, s := range ansiSpans {
			if p > s.a && p < s.b {
				return true
			}
		}
		return false
	}
	// a splitting into write calls
	mode := r.Intn(5)
	pos := 0
	for pos < len(data) {
		var n int
		switch mode {
		case 0:
			n = 1
		case 1:
			n = r.Range(1, 7)
		case 2:
			n = r.Range(1, 200)
		case 3:
			n = r.Range(1000, 5000)
		default:
			n = len(data)
		}
		if r.Chance(3) {
			ds.Chunks = append(ds.Chunks, "") // empty write
		}
		end := pos + n
		if end > len(data) {
			end = len(data)
		}
		if !allowAnsiSplit {
			for end < len(data) && inside(end) {
				end++
			}
		}
		// a write boundary never falls inside the two bytes that encode the one-character introducer U+009B (no
		// decorator can tell a lone 0xC2 from text; see the assumptions)
		if end < len(data) && end > 0 && data[end-1] == 0xC2 && data[end] == 0x9B {
			end++
		}
		if end < len(data) && inside(end) {
			ds.AnsiSplit = true
		}
		if end < len(data) && end > 0 && data[end-1] == '\r' && data[end] == '\n' {
			ds.CrlfSplit = true
		}
		if end < len(data) && data[end-1] != '\n' {
			ds.LineSplits++
		}
		ds.Chunks = append(ds.Chunks, string(data[pos:end]))
		pos = end
	}
	return ds
}

func runDecoCase(a args, idx int, r *h.Rand, format string) {
	nt := r.Range(1, 8)
	if r.Chance(40) {
		nt = 1
	}
	allowSplit := r.Chance(50)
	dual := r.Chance(35) // every task also writes a second stream to Stderr() from another goroutine, as an external command does
	sink := &recSink{}
	var streams, streams2 []decoStream
	var tasks []*task.Task
	var outs []*output.TaskOutput
	for i := 0; i < nt; i++ {
		t := task.NewTask()
		// task names are data as well (a name may contain a per cent sign, a space, a colon)
		t.Name = fmt.Sprintf("task-%c", 'A'+i) + []string{"", "", " 100%", "%d", ":%s%v", " (50%) done"}[(idx+i)%6]
		o, err := output.NewTaskOutput(t, format, sink, sink)
		if err != nil {
			panic(err)
		}
		tasks = append(tasks, t)
		outs = append(outs, o)
		streams = append(streams, genStream(r, i, allowSplit))
		if dual {
			streams2 = append(streams2, genStreamAlpha(r, i, allowSplit, alphabets2[i], false))
		}
	}
	out.Begin(fmt.Sprintf("deco#%d %s tasks=%d", idx, format, nt))
	var wg sync.WaitGroup
	short := make([]string, nt)
	for i := 0; i < nt; i++ {
		wg.Add(1)
		go func(i int) {
			defer wg.Done()
			w := outs[i].Stdout()
			if i%3 == 2 && !dual {
				w = outs[i].Stderr()
			}
			outs[i].Start()
			var wg2 sync.WaitGroup
			if dual {
				wg2.Add(1)
				go func() {
					defer wg2.Done()
					w2 := outs[i].Stderr()
					for _, c := range streams2[i].Chunks {
						n, err := w2.Write([]byte(c))
						if err != nil || n != len(c) {
							short[i] = fmt.Sprintf("stderr Write(%d bytes) returned %d, %v", len(c), n, err)
						}
					}
				}()
			}
			reuse := i%2 == 0 // like io.Copy / os/exec: one buffer, refilled before every Write
			buf := make([]byte, 0, 16<<10)
			for _, c := range streams[i].Chunks {
				p := []byte(c)
				if reuse {
					buf = append(buf[:0], c...)
					p = buf
				}
				n, err := w.Write(p)
				if err != nil || n != len(c) {
					short[i] = fmt.Sprintf("Write(%d bytes) returned %d, %v", len(c), n, err)
				}
			}
			wg2.Wait()
			outs[i].Finish()
		}(i)
	}
	wg.Wait()
	out.Count("cases", 1)
	out.Count("events", int64(len(sink.writes)))
	anySplit := false
	for _, s := range streams {
		if s.AnsiSplit {
			anySplit = true
		}
	}
	sfx := ""
	if anySplit {
		sfx = "/ansi-split-across-writes"
	}
	cas := map[string]interface{}{"format": format, "tasks": nt, "streams": clipStreams(streams), "two_streams_per_task": dual}
	if dual {
		out.Count("cases_with_two_streams", 1)
		for _, s2 := range streams2 {
			if s2.AnsiSplit {
				anySplit = true
				sfx = "/ansi-split-across-writes"
			}
		}
	}
	var sinkSample []string
	for i, w := range sink.writes {
		if i < 12 {
			sinkSample = append(sinkSample, clip(string(w), 120))
		}
	}
	cas["sink_writes_head"] = sinkSample
	for i := range short {
		if short[i] != "" {
			out.Viol("C19", format+"/short-write", short[i], cas)
		}
	}
	written := make([][]byte, nt)
	for i, s := range streams {
		written[i] = []byte(strings.Join(s.Chunks, ""))
		logb := tasks[i].Log.Stdout.Bytes()
		if i%3 == 2 && !dual {
			logb = tasks[i].Log.Stderr.Bytes()
		}
		if dual {
			if w2 := []byte(strings.Join(streams2[i].Chunks, "")); !bytes.Equal(tasks[i].Log.Stderr.Bytes(), w2) {
				out.Viol("C19", format+"/task-log-differs", fmt.Sprintf("task %d: the stderr log has %d bytes, %d bytes were written", i, tasks[i].Log.Stderr.Len(), len(w2)), cas)
			}
		}
		if !bytes.Equal(logb, written[i]) {
			out.Viol("C19", format+"/task-log-differs", fmt.Sprintf("task %d: the task log has %d bytes, %d bytes were written", i, len(logb), len(written[i])), cas)
		}
	}
	if format == output.FormatRaw {
		// per task: the sink's bytes of that task's alphabet, in order, are its bytes
		all := bytes.Join(sink.writes, nil)
		if nt == 1 && !dual {
			if !bytes.Equal(all, written[0]) {
				out.Viol("C19", "raw/bytes-differ", fmt.Sprintf("raw output forwarded %d bytes for %d written", len(all), len(written[0])), cas)
			}
		} else {
			for i := range streams {
				keep := func(b []byte) string {
					var o []byte
					for _, c := range b {
						if strings.IndexByte(alphabets[i], c) >= 0 {
							o = append(o, c)
						}
					}
					return string(o)
				}
				if keep(all) != keep(written[i]) {
					out.Viol("C19", "raw/bytes-differ", fmt.Sprintf("raw output: task %d's bytes were lost, duplicated or reordered", i), cas)
				}
				if dual {
					keep2 := func(b []byte) string {
						var o []byte
						for _, c := range b {
							if strings.IndexByte(alphabets2[i], c) >= 0 {
								o = append(o, c)
							}
						}
						return string(o)
					}
					if keep2(all) != keep2([]byte(strings.Join(streams2[i].Chunks, ""))) {
						out.Viol("C19", "raw/bytes-differ/two-streams", fmt.Sprintf("raw output: task %d's stderr bytes were lost, duplicated or reordered", i), cas)
					}
				}
			}
		}
	} else {
		per := make([][]byte, nt)
		for _, w := range sink.writes {
			if !bytes.HasSuffix(w, []byte("\r\n")) {
				out.Viol("C19", "prefixed/partial-line-write"+sfx, fmt.Sprintf("a write to the sink does not end with a line terminator: %q", clip(string(w), 200)), cas)
			}
			for _, ln := range bytes.SplitAfter(w, []byte("\r\n")) {
				if len(ln) == 0 {
					continue
				}
				owner := -1
				var payload []byte
				for i, t := range tasks {
					for _, pfx := range []string{"\x1b[36m" + t.Name + "\x1b[0m: ", t.Name + ": "} {
						if bytes.HasPrefix(ln, []byte(pfx)) {
							owner = i
							payload = ln[len(pfx):]
						}
					}
				}
				if owner < 0 {
					out.Viol("C19", "prefixed/line-without-task-prefix"+sfx, fmt.Sprintf("sink line does not start with a task name: %q", clip(string(ln), 200)), cas)
					continue
				}
				payload = bytes.TrimSuffix(payload, []byte("\r\n"))
				for _, c := range payload {
					for j := range tasks {
						if j != owner && (strings.IndexByte(alphabets[j], c) >= 0 || (dual && strings.IndexByte(alphabets2[j], c) >= 0)) {
							out.Viol("C19", "prefixed/bytes-attributed-to-wrong-task"+sfx, fmt.Sprintf("a line prefixed %s contains byte %q of task %d", tasks[owner].Name, c, j), cas)
							break
						}
					}
				}
				per[owner] = append(per[owner], payload...)
			}
		}
		for i := range streams {
			got, want := normOut(per[i]), normOut(written[i])
			if dual {
				// the two streams of a task interleave line by line in an order nobody fixes: compare per stream
				pick := func(s, alpha string) string {
					var o []byte
					for k := 0; k < len(s); k++ {
						if strings.IndexByte(alpha, s[k]) >= 0 {
							o = append(o, s[k])
						}
					}
					return string(o)
				}
				w2 := normOut([]byte(strings.Join(streams2[i].Chunks, "")))
				if g2 := pick(got, alphabets2[i]); g2 != pick(w2, alphabets2[i]) {
					out.Viol("C19", "prefixed/output-differs/two-streams"+sfx, fmt.Sprintf("task %d: its stderr stream (written concurrently with stdout) arrives with %d payload bytes instead of %d", i, len(g2), len(pick(w2, alphabets2[i]))), cas)
				}
				if len(got) != len(want)+len(w2) {
					out.Viol("C19", "prefixed/output-differs/two-streams"+sfx, fmt.Sprintf("task %d: %d bytes decorated for %d+%d written on its two streams", i, len(got), len(want), len(w2)), cas)
				}
				got, want = pick(got, alphabets[i]), pick(want, alphabets[i])
			}
			if got != want {
				sig := "prefixed/output-differs"
				switch {
				case len(got) < len(want):
					sig = "prefixed/output-lost"
				case len(got) > len(want):
					sig = "prefixed/output-garbled-or-duplicated"
				}
				d := 0
				for d < len(got) && d < len(want) && got[d] == want[d] {
					d++
				}
				cas["first_difference"] = map[string]interface{}{"at": d, "got": clip(got[d:], 60), "want": clip(want[d:], 60)}
				out.Viol("C19", sig+sfx, fmt.Sprintf("task %d: after removing prefixes, terminators and ANSI sequences the decorated output has %d bytes, the task's output %d (first difference at %d)", i, len(got), len(want), d), cas)
			}
		}
	}
	nontriv := false
	for _, s := range streams {
		if s.LineSplits > 0 {
			nontriv = true
		}
	}
	if nontriv || nt > 1 {
		out.Nontrivial("C19", fmt.Sprint(idx, format, nt, streams[0].Chunks))
	}
	if anySplit {
		out.Count("cases_with_ansi_split", 1)
	}
	out.Distinct("sink_sequences", fmt.Sprint(sinkSample, len(sink.writes)))
	out.Sample("C19", map[string]interface{}{"format": format, "tasks": nt, "first_stream_chunks": clipChunks(streams[0].Chunks), "sink_writes_head": sinkSample})
}

func clipChunks(c []string) []string {
	var r []string
	for i, x := range c {
		if i >= 8 {
			break
		}
		r = append(r, clip(x, 60))
	}
	return r
}
func clipStreams(ss []decoStream) []map[string]interface{} {
	var r []map[string]interface{}
	for _, s := range ss {
		r = append(r, map[string]interface{}{"task": s.Task, "chunks": len(s.Chunks), "ansi_split": s.AnsiSplit, "crlf_split": s.CrlfSplit, "head": clipChunks(s.Chunks)})
	}
	return r
}

func modeDeco(a args) {
	rnd := h.NewRand(a.Seed, "deco")
	n := a.n(2000, 60000)
	if a.Race {
		n = a.n(300, 4000)
	}
	var jobs []func()
	for i := 0; i < n; i++ {
		r := h.NewRand(int64(rnd.U64()), "c19")
		i := i
		format := output.FormatPrefixed
		if i%5 == 4 {
			format = output.FormatRaw
		}
		if a.mine(i) {
			jobs = append(jobs, func() { runDecoCase(a, i, r, format) })
		}
	}
	h.Par(len(jobs), 4, func(i int) { jobs[i]() })
}

// ---- format x outcome: one child process per case, prints the task's recorded result

var ansiSeq = regexp.MustCompile("\x1b\\[[0-9;]*[A-Za-z]")

type fmtSpec struct {
	Format  string `json:"format"`
	Outcome string `json:"outcome"` // success | fail | skipped | before-fails | up-fails | allowed-failure
}

func modeFmt1(a args) {
	var sp fmtSpec
	json.Unmarshal([]byte(a.Extra["spec"]), &sp)
	t := task.NewTask()
	t.Name = "subject"
	t.Commands = []string{"printf 'line one\\nline two\\n'", "printf 'three\\n'"}
	warmUp := strings.HasPrefix(sp.Outcome, "then-") // another task has really run on this runner before
	sp.Outcome = strings.TrimPrefix(sp.Outcome, "then-")
	switch sp.Outcome {
	case "fail":
		t.Commands[1] = "printf 'three\\n'; exit 9"
	case "allowed-failure":
		t.Commands[0] += "; exit 4"
		t.AllowFailure = true
	case "skipped":
		t.Condition = "exit 1"
	case "before-fails":
		t.Before = []string{"exit 2"}
	case "long-ansi-lines":
		// an external command writing lines longer than any internal buffer, with escape sequences inside
		var sb strings.Builder
		for l := 0; l < 3; l++ {
			for k := 0; k < 60; k++ {
				sb.WriteString(strings.Repeat(string(rune('a'+l)), 97))
				if k%7 == 3 {
					sb.WriteString("\x1b[3" + fmt.Sprint(k%8) + "m")
				}
			}
			sb.WriteString("\x1b[0m\n")
		}
		f := filepath.Join(a.Work, "long-ansi.txt")
		os.WriteFile(f, []byte(sb.String()), 0o644)
		t.Commands = []string{"cat '" + f + "'", "printf 'three\\n'"}
	case "fail-coloured-tail":
		// the last write of a failing task ends in an escape sequence followed by text, without a line terminator
		t.Commands = []string{"printf 'compiling\\033[31mFAILED'; exit 3"}
	case "ok-coloured-tail":
		t.Commands = []string{"printf 'compiling\\033[32mDONE'"}
	case "both-streams":
		// an external command writing many lines to stdout and stderr at the same time
		t.Commands = []string{"sh -c 'i=0; while [ $i -lt 1500 ]; do echo out$i; echo err$i >&2; i=$((i+1)); done'", "printf 'three\\n'"}
	}
	r := newQuietRunner()
	var so syncBuf
	r.Stdout, r.Stderr = &so, io.Discard
	r.OutputFormat = sp.Format
	if warmUp {
		w := task.FromCommands("printf 'warm-up\\n'")
		w.Name = "warm-up"
		r.Run(w)
	}
	err := r.Run(t)
	r.Finish()
	res := map[string]interface{}{"k": "fmtresult", "err": err != nil, "errored": t.Errored, "skipped": t.Skipped, "exit_code": t.ExitCode, "output": t.Output()}
	b, _ := json.Marshal(res)
	fmt.Fprintln(os.Stdout, string(b))
	if sp.Format != "cockpit" {
		// the payload as shown: escape sequences, the task-name prefix and line terminators removed
		shown := ansiSeq.ReplaceAllString(so.String(), "")
		shown = strings.ReplaceAll(strings.ReplaceAll(shown, "subject: ", ""), "warm-up: ", "")
		shown = strings.NewReplacer("\r", "", "\n", "").Replace(shown)
		vb, _ := json.Marshal(map[string]interface{}{"k": "fmtvisible", "visible": shown})
		fmt.Fprintln(os.Stdout, string(vb))
	}
	out.Count("cases", 1)
}

func init() {
	modes["deco"] = modeDeco
	modes["fmt1"] = modeFmt1
}
