package main

// C10 (in-process part): template rendering while stages run in parallel. Every stage's commands are
// templates over the stage's own variables; whatever the interleaving, a stage must execute its own
// command text rendered with its own variables. Run plain and under the race detector.

import (
	"fmt"
	"os"
	"path/filepath"
	"strings"
	"time"

	"github.com/taskctl/taskctl/pkg/scheduler"
	"github.com/taskctl/taskctl/pkg/task"
	"github.com/taskctl/taskctl/pkg/variables"

	"verif/internal/h"
)

func modeRender(a args) {
	rnd := h.NewRand(a.Seed, "render")
	rounds := a.n(120, 3000)
	if a.Race {
		rounds = a.n(40, 600)
	}
	for round := 0; round < rounds; round++ {
		r := h.NewRand(int64(rnd.U64()), "round")
		if !a.mine(round) {
			continue
		}
		k := r.Range(4, 10)
		ncmd := r.Range(2, 5)
		dir := filepath.Join(a.Work, fmt.Sprintf("render.%d", round))
		os.MkdirAll(dir, 0o755)
		var stages []*scheduler.Stage
		want := map[string][]string{}
		for i := 0; i < k; i++ {
			name := fmt.Sprintf("st%d", i)
			t := task.NewTask()
			t.Name = "task-" + name
			t.Variables = variables.FromMap(map[string]string{"Own": "task-" + name})
			for c := 0; c < ncmd; c++ {
				// distinct text per stage and per command; one in three without any template (fast paths)
				if (i+c)%3 == 2 {
					t.Commands = append(t.Commands, fmt.Sprintf("printf 'plain-%s-c%d\\n' >> '%s/%s.out'", name, c, dir, name))
					want[name] = append(want[name], fmt.Sprintf("plain-%s-c%d", name, c))
				} else {
					t.Commands = append(t.Commands, fmt.Sprintf("printf '{{ .Who }}/{{ .Own }}/%s-c%d/{{ .N }}\\n' >> '%s/%s.out'", name, c, dir, name))
					want[name] = append(want[name], fmt.Sprintf("who-%s/task-%s/%s-c%d/%d", name, name, name, c, i*7))
				}
			}
			st := &scheduler.Stage{Name: name, Task: t, Variables: variables.FromMap(map[string]string{"Who": "who-" + name, "N": fmt.Sprint(i * 7)})}
			if i >= 2 && r.Chance(20) {
				st.DependsOn = []string{fmt.Sprintf("st%d", r.Intn(i))}
			}
			stages = append(stages, st)
		}
		g, err := scheduler.NewExecutionGraph(stages...)
		if err != nil {
			continue
		}
		out.Begin(fmt.Sprintf("render#%d", round))
		tr := newQuietRunner()
		sch := scheduler.NewScheduler(tr)
		sch.VerifSetPause(200 * time.Microsecond)
		serr := sch.Schedule(g)
		lockedFinish(sch.Finish)
		out.Count("cases", 1)
		cas := map[string]interface{}{"stages": k, "commands_per_stage": ncmd, "round": round}
		if serr != nil {
			out.Viol("C10", "parallel-render/pipeline-failed", fmt.Sprintf("a pipeline of %d stages with templated commands failed: %v", k, serr), cas)
		}
		for name, w := range want {
			got := strings.Fields(h.ReadFile(filepath.Join(dir, name+".out")))
			out.Count("events", int64(len(got)))
			if strings.Join(got, " ") != strings.Join(w, " ") {
				cas["stage"], cas["got"], cas["want"] = name, got, w
				out.Viol("C10", "parallel-render/command-of-another-stage", fmt.Sprintf("stage %s executed %v; its own commands rendered with its own variables give %v", name, got, w), cas)
				break
			}
		}
		os.RemoveAll(dir)
		out.Nontrivial("C10", fmt.Sprintf("render-%d-%d-%d", round, k, ncmd))
	}
}

func init() { modes["render"] = modeRender }
