package main

// C13: a task timeout bounds every one of its commands.

import (
	"fmt"
	"os"
	"path/filepath"
	"strconv"
	"strings"
	"time"

	"github.com/taskctl/taskctl/pkg/task"

	"verif/internal/h"
)

type toCase struct {
	Kind        string `json:"kind"`  // overrun | fits | each-full
	Shape       string `json:"shape"` // sleep | busy | ignore-int | subshell | pipeline
	Where       string `json:"where"` // command | before | after
	N           int    `json:"commands"`
	Pos         int    `json:"pos"`
	Allow       bool   `json:"allow_failure"`
	TimeoutMs   int    `json:"timeout_ms"`
	Variation   bool   `json:"in_second_variation,omitempty"`       // the task has two variations, only the second one overruns
	Interactive bool   `json:"interactive,omitempty"`               // interactive task; the runner's stdin is a pipe that stays open and silent
	Cond        bool   `json:"with_condition,omitempty"`            // the task also has a condition (that holds)
	Earlier     bool   `json:"earlier_tolerated_failure,omitempty"` // allow_failure task whose first command exits non-zero before the overrun
	AfterHook   bool   `json:"with_after_hook,omitempty"`           // the task whose command overruns also has an `after` command
}

func overrunCmd(shape, pidfile string, timeoutMs int) string {
	switch shape {
	case "statements":
		// many short statements: none of them overruns on its own, together they take 7 x the timeout
		one := fmt.Sprintf("sleep %.3f", float64(timeoutMs)*0.6/1000)
		return strings.Join([]string{one, one, one, one, one, one, one, one, one, one, one, one}, "\n")
	case "background-wait":
		// part of the command runs in the background and the command waits for it
		return fmt.Sprintf("sh -c 'echo $$ >> %s; exec sleep 20' & wait", pidfile)
	case "background-then-foreground":
		return fmt.Sprintf("true & sh -c 'echo $$ >> %s; exec sleep 20'", pidfile)
	case "busy":
		return "i=0; while [ $i -lt 6000000 ]; do i=$((i+1)); done" // ~20 s of pure shell, bounded so that a tree without timeouts still terminates
	case "ignore-int":
		return fmt.Sprintf("sh -c 'trap \"\" INT; echo $$ >> %s; exec sleep 20'", pidfile)
	case "subshell":
		return fmt.Sprintf("(sh -c 'echo $$ >> %s; exec sleep 20')", pidfile)
	case "pipeline":
		return fmt.Sprintf("sh -c 'echo $$ >> %s; exec sleep 20' | cat", pidfile)
	}
	return fmt.Sprintf("sh -c 'echo $$ >> %s; exec sleep 20'", pidfile)
}

func alive(pid int) bool {
	b, err := os.ReadFile(fmt.Sprintf("/proc/%d/stat", pid))
	if err != nil {
		return false
	}
	// zombie does not count as running
	f := strings.Fields(string(b))
	return len(f) > 2 && f[2] != "Z"
}

func runTimeoutCase(a args, tcx toCase, idx int, confirm bool) (suspect string) {
	dir := filepath.Join(a.Work, fmt.Sprintf("to.%d.%v", idx, confirm))
	os.MkdirAll(dir, 0o755)
	defer os.RemoveAll(dir)
	trace, pidfile := dir+"/trace", dir+"/pids"
	tok := func(s string) string { return fmt.Sprintf("printf '%s\\n' >> '%s'", s, trace) }
	t := task.NewTask()
	t.Name = fmt.Sprintf("to%d", idx)
	t.AllowFailure = tcx.Allow
	to := time.Duration(tcx.TimeoutMs) * time.Millisecond
	t.Timeout = &to
	var want []string
	wantErr := false
	switch tcx.Kind {
	case "overrun":
		over := tok("START") + "; " + overrunCmd(tcx.Shape, pidfile, tcx.TimeoutMs) + "; " + tok("SURVIVED")
		if tcx.Variation {
			t.Variations = []map[string]string{{"V": "v0"}, {"V": "v1"}}
			over = "if [ \"$V\" = v1 ]; then " + over + "; else " + tok("quick") + "; fi"
		}
		for i := 0; i < tcx.N; i++ {
			if tcx.Where == "command" && i == tcx.Pos {
				t.Commands = append(t.Commands, over)
			} else {
				t.Commands = append(t.Commands, tok(fmt.Sprint("c", i)))
			}
		}
		switch tcx.Where {
		case "before":
			t.Before = []string{over}
			want = []string{"START"}
			wantErr = true
		case "after":
			t.After = []string{over}
			for i := 0; i < tcx.N; i++ {
				want = append(want, fmt.Sprint("c", i))
			}
			want = append(want, "START")
		default:
			if tcx.Variation {
				// the first variation runs completely, the second one up to the overrunning command
				for i := 0; i < tcx.N; i++ {
					if i == tcx.Pos {
						want = append(want, "quick")
					} else {
						want = append(want, fmt.Sprint("c", i))
					}
				}
			}
			for i := 0; i < tcx.Pos; i++ {
				want = append(want, fmt.Sprint("c", i))
			}
			want = append(want, "START")
			wantErr = true
		}
		if tcx.AfterHook && tcx.Where == "command" {
			// (whether the hook still runs is C06's question; the task is reported as failed either way)
			t.After = []string{tok("after-hook")}
		}
		if tcx.Earlier && tcx.Where == "command" {
			// a tolerated failure first: it must not make the later timeout tolerated as well
			t.AllowFailure = true
			t.Commands = append([]string{tok("early") + "; exit 3"}, t.Commands...)
			want = append([]string{"early"}, want...)
			if tcx.Variation {
				// "early" runs in both variations
				idx := 1 + tcx.N
				want = append(want[:idx], append([]string{"early"}, want[idx:]...)...)
			}
		}
	case "fits":
		for i := 0; i < tcx.N; i++ {
			t.Commands = append(t.Commands, tok(fmt.Sprint("c", i))+"; sleep 0.05")
			want = append(want, fmt.Sprint("c", i))
		}
		t.Before = []string{tok("before")}
		t.After = []string{tok("after")}
		want = append(append([]string{"before"}, want...), "after")
	case "each-full":
		// every command takes 0.4 x timeout; together more than the timeout
		sl := float64(tcx.TimeoutMs) * 0.4 / 1000
		for i := 0; i < tcx.N; i++ {
			t.Commands = append(t.Commands, fmt.Sprintf("sleep %.3f; %s", sl, tok(fmt.Sprint("c", i))))
			want = append(want, fmt.Sprint("c", i))
		}
	}
	if tcx.Cond {
		t.Condition = "test 1 = 1"
	}
	out.Begin(fmt.Sprintf("timeout#%d %s", idx, h.MustJSON(tcx)))
	r := newQuietRunner()
	if tcx.Interactive {
		pr, pw, perr := os.Pipe()
		if perr == nil {
			defer pw.Close()
			defer pr.Close()
			r.Stdin = pr
			t.Interactive = true
		}
	}
	t0 := time.Now()
	var err error
	ret := make(chan error, 1)
	go func() { ret <- r.Run(t) }()
	select {
	case err = <-ret:
	case <-time.After(to + 2*time.Second + 25*time.Second):
		out.Viol("C13", "run-did-not-return-after-timeout/"+tcx.Shape, fmt.Sprintf("Run has not returned %s after a timeout of %s expired (interactive=%v)", 27*time.Second, to, tcx.Interactive), map[string]interface{}{"case": tcx})
		return ""
	}
	dur := time.Since(t0)
	lockedFinish(r.Finish)
	got := strings.Fields(h.ReadFile(trace))
	if tcx.AfterHook {
		var g2 []string
		for _, g := range got {
			if g != "after-hook" {
				g2 = append(g2, g)
			}
		}
		got = g2
	}
	var pids []int
	for _, f := range strings.Fields(h.ReadFile(pidfile)) {
		if p, e := strconv.Atoi(f); e == nil {
			pids = append(pids, p)
		}
	}
	cas := map[string]interface{}{"case": tcx, "trace": got, "want_trace": want, "err": fmt.Sprint(err), "errored": t.Errored, "run_ms": dur.Milliseconds()}
	if !confirm {
		out.Count("cases", 1)
		out.Count("events", int64(len(got)))
	}
	for _, g := range got {
		if g == "SURVIVED" {
			out.Viol("C13", "overrunning-command-not-terminated/"+tcx.Where+"/"+tcx.Shape, "the command after the overrunning one ran: the overrunning command was not terminated but ran to completion", cas)
		}
	}
	if strings.Join(got, " ") != strings.Join(want, " ") {
		sig := "trace-differs/" + tcx.Kind + "/" + tcx.Where
		if len(got) > len(want) {
			sig = "later-command-started-after-timeout/" + tcx.Where
		}
		out.Viol("C13", sig, fmt.Sprintf("trace %v, the statement requires %v", got, want), cas)
	}
	if (err != nil) != wantErr {
		sig := "timeout-not-reported-as-failure/" + tcx.Where
		if !wantErr {
			sig = "command-within-timeout-failed/" + tcx.Kind
		}
		out.Viol("C13", sig, fmt.Sprintf("Run returned %v, the statement requires error=%v (allow_failure=%v)", err, wantErr, tcx.Allow), cas)
	}
	if tcx.Where == "command" && tcx.Kind == "overrun" && !t.Errored {
		out.Viol("C13", "timeout-not-reported-as-failure/errored-flag", "Task.Errored is false after a command overran the timeout", cas)
	}
	if tcx.Kind != "overrun" && t.Errored {
		out.Viol("C13", "command-within-timeout-failed/"+tcx.Kind, "Task.Errored although every command finished within the timeout", cas)
	}
	// spawned processes must be gone once Run has returned (poll briefly: reaping is asynchronous)
	for _, p := range pids {
		gone := false
		for i := 0; i < 30; i++ {
			if !alive(p) {
				gone = true
				break
			}
			time.Sleep(100 * time.Millisecond)
		}
		if !gone {
			out.Viol("C13", "process-alive-after-timeout/"+tcx.Shape, fmt.Sprintf("process %d of the overrunning command is still running 3 s after Run returned", p), cas)
			// do not leave it behind
			if pr, e := os.FindProcess(p); e == nil {
				pr.Kill()
			}
		}
	}
	if tcx.Kind == "overrun" {
		bound := to + 2*time.Second + 5*time.Second
		if dur > bound {
			suspect = fmt.Sprintf("Run took %s with a timeout of %s (bound %s)", dur, to, bound)
		}
	}
	if !confirm {
		out.Nontrivial("C13", h.MustJSON(tcx))
		out.Sample("C13", cas)
	}
	return suspect
}

func modeTimeout(a args) {
	var cases []toCase
	rnd := h.NewRand(a.Seed, "timeout")
	shapes := []string{"sleep", "busy", "ignore-int", "subshell", "pipeline", "statements", "background-wait", "background-then-foreground"}
	tmos := []int{100, 200, 400, 700, 1000}
	for _, shape := range shapes {
		for n := 1; n <= 3; n++ {
			for pos := 0; pos < n; pos++ {
				for _, allow := range []bool{false, true} {
					if a.quick() && rnd.Chance(55) {
						continue
					}
					cases = append(cases, toCase{Kind: "overrun", Shape: shape, Where: "command", N: n, Pos: pos, Allow: allow, TimeoutMs: tmos[rnd.Intn(len(tmos))]})
				}
			}
		}
		for _, where := range []string{"before", "after"} {
			for _, allow := range []bool{false, true} {
				if a.quick() && rnd.Chance(40) {
					continue
				}
				cases = append(cases, toCase{Kind: "overrun", Shape: shape, Where: where, N: rnd.Range(1, 3), Allow: allow, TimeoutMs: tmos[rnd.Intn(len(tmos))]})
			}
		}
	}
	for _, shape := range []string{"sleep", "busy"} {
		for n := 1; n <= 2; n++ {
			cases = append(cases, toCase{Kind: "overrun", Shape: shape, Where: "command", N: n, Pos: n - 1, TimeoutMs: 300, Variation: true},
				toCase{Kind: "overrun", Shape: shape, Where: "command", N: n, Pos: 0, Allow: true, TimeoutMs: 300, Earlier: true},
				toCase{Kind: "overrun", Shape: shape, Where: "command", N: n, Pos: n - 1, Allow: true, TimeoutMs: 300, Earlier: true, Variation: true})
		}
	}
	for _, allow := range []bool{true, false} {
		for n := 1; n <= 2; n++ {
			cases = append(cases, toCase{Kind: "overrun", Shape: "sleep", Where: "command", N: n, Pos: n - 1, Allow: allow, TimeoutMs: 300, AfterHook: true},
				toCase{Kind: "overrun", Shape: "busy", Where: "command", N: n + 1, Pos: 0, Allow: allow, TimeoutMs: 250, AfterHook: true, Variation: n == 2})
		}
	}
	reps := a.n(1, 12)
	for rep := 0; rep < reps; rep++ {
		for n := 1; n <= 3; n++ {
			cases = append(cases, toCase{Kind: "fits", N: n, TimeoutMs: 2000, Allow: rep%2 == 1})
		}
		cases = append(cases, toCase{Kind: "each-full", N: 3, TimeoutMs: 1000}, toCase{Kind: "each-full", N: 4, TimeoutMs: 800, Allow: true})
		if rep > 0 {
			for i := 0; i < 40; i++ {
				n := rnd.Range(1, 3)
				cases = append(cases, toCase{Kind: "overrun", Shape: shapes[rnd.Intn(len(shapes))], Where: []string{"command", "command", "before", "after"}[rnd.Intn(4)], N: n, Pos: rnd.Intn(n), Allow: rnd.Bool(), TimeoutMs: rnd.Range(100, 1000)})
			}
		}
	}
	for _, shape := range []string{"sleep", "busy", "statements"} {
		for _, where := range []string{"command", "before", "after"} {
			cases = append(cases, toCase{Kind: "overrun", Shape: shape, Where: where, N: 2, Pos: 1, TimeoutMs: 200 + 100*len(cases)%5, Cond: true, Allow: len(cases)%2 == 0})
		}
	}
	cases = append(cases, toCase{Kind: "fits", N: 2, TimeoutMs: 2000, Cond: true}, toCase{Kind: "each-full", N: 3, TimeoutMs: 400, Cond: true})
	for _, shape := range []string{"sleep", "ignore-int", "pipeline"} {
		for _, where := range []string{"command", "before"} {
			cases = append(cases, toCase{Kind: "overrun", Shape: shape, Where: where, N: 2, Pos: 0, TimeoutMs: 300, Interactive: true})
		}
	}
	var mine []int
	for i := range cases {
		if a.mine(i) {
			mine = append(mine, i)
		}
	}
	var suspects []int
	var smu = make(chan struct{}, 1)
	smu <- struct{}{}
	h.Par(len(mine), 6, func(k int) {
		if s := runTimeoutCase(a, cases[mine[k]], mine[k], false); s != "" {
			<-smu
			suspects = append(suspects, mine[k])
			smu <- struct{}{}
		}
	})
	// clock-based observation: re-confirm serially
	for n, i := range suspects {
		if n >= 2 {
			out.Inconclusive("C13", fmt.Sprintf("%d further cases exceeded the time bound; not re-confirmed after two confirmed ones", len(suspects)-2))
			break
		}
		again, last := 0, ""
		for k := 0; k < 3; k++ {
			if s := runTimeoutCase(a, cases[i], i, true); s != "" {
				again++
				last = s
			}
		}
		if again == 3 {
			out.Viol("C13", "not-terminated-shortly-after-timeout/"+cases[i].Shape, last, cases[i])
		} else {
			out.Inconclusive("C13", fmt.Sprintf("case %d exceeded the time bound once, not reproduced", i))
		}
	}
}

func init() { modes["timeout"] = modeTimeout }
