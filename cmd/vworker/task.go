package main

// C06 / C07 (library part): one task through the real TaskRunner, compared
// with a reference interpreter of the statement.

import (
	"bytes"
	"fmt"
	"os"
	"path/filepath"
	"strings"
	"sync"
	"time"

	"github.com/sirupsen/logrus"

	"github.com/taskctl/taskctl/pkg/runner"
	"github.com/taskctl/taskctl/pkg/scheduler"
	"github.com/taskctl/taskctl/pkg/task"
	"github.com/taskctl/taskctl/pkg/variables"

	"verif/internal/h"
)

func init() {
	logrus.SetLevel(logrus.ErrorLevel)
}

type taskCase struct {
	Commands   int    `json:"commands"`
	Variations int    `json:"variations"`
	Fail       []int  `json:"fail"` // exit status per command (0 = succeeds)
	How        string `json:"how"`  // exit | subshell | sh | signal
	Allow      bool   `json:"allow_failure"`
	Before     int    `json:"before"`          // 0 absent, 1 ok, 2 fails, 3 = two commands [fails, ok], 4 = two commands [ok, fails]
	Rerun      bool   `json:"rerun,omitempty"` // the same task object is run a second time after a first run in which its first command failed
	After      int    `json:"after"`
	Cond       int    `json:"cond"` // 0 absent, 1 true, 2 false
	Overlap    bool   `json:"overlap_probe,omitempty"`
	AsStage    bool   `json:"as_stage,omitempty"`
	StageAllow bool   `json:"stage_allow_failure,omitempty"` // allow_failure of the stage (not of the task) when run as a stage
	// SkippedSibling (as a stage): another stage of the pipeline uses the same task object and is switched off by a
	// stage-level condition before this one starts
	SkippedSibling bool `json:"skipped_sibling_stage,omitempty"`
	// Format: output format of the runner; every command then also runs an external program whose coloured output
	// arrives in two writes (what the decorators do with it must not change which commands run)
	Format string `json:"format,omitempty"`
}

type syncBuf struct {
	mu sync.Mutex
	b  bytes.Buffer
}

func (s *syncBuf) Write(p []byte) (int, error) {
	s.mu.Lock()
	defer s.mu.Unlock()
	return s.b.Write(p)
}
func (s *syncBuf) String() string { s.mu.Lock(); defer s.mu.Unlock(); return s.b.String() }

func failCmd(how string, status int) string {
	switch how {
	case "subshell":
		return fmt.Sprintf("(exit %d)", status)
	case "sh":
		return fmt.Sprintf("sh -c 'exit %d'", status)
	case "signal":
		return fmt.Sprintf("sh -c 'kill -%d $$'", status-128)
	}
	return fmt.Sprintf("exit %d", status)
}

func runTaskCase(a args, tcase taskCase, idx int, shared *runner.TaskRunner) {
	trace := filepath.Join(a.Work, fmt.Sprintf("ttrace.%d", idx))
	os.Remove(trace)
	defer os.Remove(trace)
	tok := func(s string) string { return fmt.Sprintf("printf '%s\\n' >> '%s'", s, trace) }

	t := task.NewTask()
	t.Name = fmt.Sprintf("case%d", idx)
	t.AllowFailure = tcase.Allow
	for i := 0; i < tcase.Commands; i++ {
		cmd := fmt.Sprintf("printf \"c%d:$V\\n\"; printf \"c%d:$V\\n\" >> '%s'", i, i, trace)
		if tcase.Overlap {
			cmd = fmt.Sprintf("printf \"S%d:$V\\n\" >> '%s'; sleep 0.01; ", i, trace) + cmd
		}
		if shared != nil || idx%5 == 2 {
			// template syntax that is part of the command: a reference to the task's own variable, and escaped braces
			// that have to reach the shell as literal braces
			cmd = `: {{ .Own }}; printf '%s\n' '{{ "{{" }}.Names{{ "}}" }}' > /dev/null; ` + cmd
		}
		if tcase.Format != "" {
			cmd = `sh -c 'printf "a\033[3"; sleep 0.03; printf "1mRED\033[0m\n"; printf "err\033[" >&2; printf "0m\n" >&2'; ` + cmd
		}
		if tcase.Fail[i] != 0 {
			cmd += "; " + failCmd(tcase.How, tcase.Fail[i])
		}
		t.Commands = append(t.Commands, cmd)
	}
	for v := 0; v < tcase.Variations; v++ {
		t.Variations = append(t.Variations, map[string]string{"V": fmt.Sprint("v", v)})
	}
	t.Variables = variables.FromMap(map[string]string{"Own": t.Name})
	switch tcase.Before {
	case 1:
		t.Before = []string{tok("before")}
	case 2:
		t.Before = []string{tok("before") + "; exit 3"}
	case 3:
		t.Before = []string{tok("before") + "; exit 3", tok("before2")}
	case 4:
		t.Before = []string{tok("before"), tok("before2") + "; exit 3"}
	}
	flag := filepath.Join(a.Work, fmt.Sprintf("rerun.flag.%d", idx))
	if tcase.Rerun {
		// first run: the first command fails because the flag file is missing; then the harness creates it
		os.Remove(flag)
		t.Commands[0] = fmt.Sprintf("test -e '%s' || exit 9; ", flag) + t.Commands[0]
		defer os.Remove(flag)
	}
	switch tcase.After {
	case 1:
		t.After = []string{tok("after")}
	case 2:
		t.After = []string{tok("after") + "; exit 4"}
	}
	switch tcase.Cond {
	case 1:
		t.Condition = tok("cond")
	case 2:
		t.Condition = tok("cond") + "; exit 1"
	}

	// ---- reference interpreter of the statement
	var want []string
	var wantAfterOptional bool
	wantErr, wantSkipped, wantErrored := false, false, false
	wantExit := 0
	func() {
		if tcase.Cond != 0 {
			want = append(want, "cond")
		}
		if tcase.Cond == 2 {
			wantSkipped = true
			wantExit = -1
			return
		}
		if tcase.Before != 0 {
			want = append(want, "before")
		}
		if tcase.Before == 4 {
			want = append(want, "before2")
		}
		if tcase.Before >= 2 {
			// a failing `before` prevents all commands (whether a later before command still runs is open)
			wantErr = true
			wantAfterOptional = true
			wantExit = -999 // not determined by the statement
			return
		}
		vars := []string{""}
		if tcase.Variations > 0 {
			vars = nil
			for v := 0; v < tcase.Variations; v++ {
				vars = append(vars, fmt.Sprint("v", v))
			}
		}
		for _, v := range vars {
			for i := 0; i < tcase.Commands; i++ {
				if tcase.Overlap {
					want = append(want, fmt.Sprintf("S%d:%s", i, v))
				}
				want = append(want, fmt.Sprintf("c%d:%s", i, v))
				if tcase.Fail[i] != 0 && !tcase.Allow {
					wantErr, wantErrored = true, true
					wantExit = tcase.Fail[i]
					return
				}
			}
		}
		if tcase.After != 0 {
			want = append(want, "after")
		}
	}()

	// ---- the real thing
	out.Begin(fmt.Sprintf("task#%d %s", idx, h.MustJSON(tcase)))
	var so syncBuf
	var err error
	var stageStatus int32 = -1
	var schedErr error
	if tcase.AsStage {
		r := newQuietRunner()
		r.Stdout = &so
		dep := task.FromCommands(tok("dependant"))
		dep.Name = "dependant"
		sts := []*scheduler.Stage{{Name: "s", Task: t, AllowFailure: tcase.StageAllow}, {Name: "d", Task: dep, DependsOn: []string{"s"}}}
		if tcase.SkippedSibling {
			sts[0].DependsOn = []string{"z"}
			sts = append(sts, &scheduler.Stage{Name: "z", Task: t, Condition: "/bin/false"})
		}
		g, gerr := scheduler.NewExecutionGraph(sts...)
		if gerr != nil {
			out.Viol("C05", "acyclic-rejected", "two-stage chain rejected", tcase)
			return
		}
		sch := scheduler.NewScheduler(r)
		sch.VerifSetPause(200 * time.Microsecond)
		schedErr = sch.Schedule(g)
		st, _ := g.Node("s")
		stageStatus = st.ReadStatus()
		t = st.Task // the stage runs (and keeps) its own copy of the task; results live there
		err = schedErr
		lockedFinish(sch.Finish)
	} else if shared != nil {
		// several tasks run at the same time on one runner (as parallel stages do)
		err = shared.Run(t)
	} else if tcase.Rerun {
		r := newQuietRunner()
		r.Stdout = &so
		first := r.Run(t) // fails at the first command
		if first == nil {
			out.Viol("C06", "rerun-setup", "the first run was expected to fail at its first command", tcase)
		}
		os.Remove(trace)
		so = syncBuf{}
		r.Stdout = &so
		os.WriteFile(flag, nil, 0o644)
		run2 := t
		if idx%2 == 1 {
			cp := *t // the watcher and the scheduler run struct copies of a task
			run2 = &cp
		}
		err = r.Run(run2)
		t = run2
		lockedFinish(r.Finish)
	} else {
		r := newQuietRunner()
		r.Stdout = &so
		if tcase.Format != "" {
			r.OutputFormat = tcase.Format
		}
		err = r.Run(t)
		lockedFinish(r.Finish)
	}
	got := strings.Fields(h.ReadFile(trace))
	depRan := false
	if tcase.AsStage {
		var g2 []string
		for _, x := range got {
			if x == "dependant" {
				depRan = true
			} else {
				g2 = append(g2, x)
			}
		}
		got = g2
	}
	cas := map[string]interface{}{"task": tcase, "want_trace": want, "got_trace": got, "err": fmt.Sprint(err), "errored": t.Errored, "skipped": t.Skipped, "exit_code": t.ExitCode}
	out.Count("cases", 1)
	out.Count("events", int64(len(got)))

	// C06: ordered trace
	okTrace := strings.Join(got, " ") == strings.Join(want, " ")
	if !okTrace && wantAfterOptional {
		alts := [][]string{want}
		if tcase.Before == 3 {
			alts = append(alts, append(append([]string(nil), want...), "before2"))
		}
		for _, alt := range alts {
			if strings.Join(got, " ") == strings.Join(alt, " ") {
				okTrace = true
			}
			if tcase.After != 0 && strings.Join(got, " ") == strings.Join(append(append([]string(nil), alt...), "after"), " ") {
				okTrace = true
			}
		}
	}
	if !okTrace {
		sig := "trace-differs"
		switch {
		case len(got) > len(want):
			sig = "extra-commands-ran"
		case len(got) < len(want):
			sig = "commands-missing"
		default:
			sig = "order-differs"
		}
		out.Viol("C06", sig, fmt.Sprintf("ordered trace %v, the statement requires %v", got, want), cas)
	}
	// stdout of the commands (c-tokens only) must agree with the trace file
	var soToks, trToks []string
	for _, x := range strings.Fields(so.String()) {
		if strings.HasPrefix(x, "c") {
			soToks = append(soToks, x)
		}
	}
	for _, x := range got {
		if strings.HasPrefix(x, "c") && x != "cond" {
			trToks = append(trToks, x)
		}
	}
	if shared == nil && tcase.Format == "" && strings.Join(soToks, " ") != strings.Join(trToks, " ") {
		out.Viol("C06", "stdout-order-differs-from-trace", fmt.Sprintf("stdout tokens %v vs trace %v", soToks, trToks), cas)
	}
	if t.Skipped != wantSkipped {
		out.Viol("C06", "skipped-flag", fmt.Sprintf("Task.Skipped=%v, want %v", t.Skipped, wantSkipped), cas)
		out.Viol("C07", "skipped-flag", fmt.Sprintf("Task.Skipped=%v, want %v", t.Skipped, wantSkipped), cas)
	}
	// C07: faithful status
	if (err != nil) != (wantErr && !(tcase.AsStage && tcase.StageAllow)) {
		out.Viol("C07", "error-return", fmt.Sprintf("Run/Schedule returned err=%v, the statement requires error=%v", err, wantErr), cas)
	}
	if tcase.Before < 2 && !tcase.Rerun {
		if t.Errored != wantErrored {
			out.Viol("C07", "errored-flag", fmt.Sprintf("Task.Errored=%v, want %v", t.Errored, wantErrored), cas)
		}
		if int(t.ExitCode) != wantExit {
			out.Viol("C07", "exit-code", fmt.Sprintf("Task.ExitCode=%d, the statement requires %d", t.ExitCode, wantExit), cas)
		}
	}
	if tcase.AsStage {
		wantStatus := int32(scheduler.StatusDone)
		if wantSkipped {
			wantStatus = scheduler.StatusDone // a task skipped by its own condition is a stage that completed
		}
		if wantErr && !tcase.StageAllow {
			wantStatus = scheduler.StatusError // a stage whose failure is allowed completes (Done)
		}
		if stageStatus != wantStatus {
			out.Viol("C07", "stage-status", fmt.Sprintf("stage status %s, task outcome requires %s", statusName(stageStatus), statusName(wantStatus)), cas)
		}
		if depRan != (!wantErr || tcase.StageAllow) {
			out.Viol("C07", "dependant-ran", fmt.Sprintf("dependant ran=%v although the stage's task error=%v (stage allow_failure=%v)", depRan, wantErr, tcase.StageAllow), cas)
		}
	}
	key := h.MustJSON(tcase)
	nfail := 0
	for _, f := range tcase.Fail {
		if f != 0 {
			nfail++
		}
	}
	if tcase.Commands*maxInt(tcase.Variations, 1) >= 2 || tcase.Before+tcase.After+tcase.Cond > 0 {
		out.Nontrivial("C06", key)
	}
	if nfail > 0 || tcase.Cond == 2 || tcase.Before == 2 {
		out.Nontrivial("C07", key)
	}
	out.Sample(a.Prop, cas)
}

var statusDraw = []int{1, 2, 126, 127, 128, 255}

// runRepeatCase: a task whose command list contains blank entries (an empty script) is run several times in one
// process - directly, as a struct copy (what the scheduler and the watcher run) and by two stages of one
// pipeline. Every run executes exactly the declared non-blank commands, once each, in order.
func runRepeatCase(a args, idx int, r *h.Rand) {
	trace := filepath.Join(a.Work, fmt.Sprintf("rtrace.%d", idx))
	os.Remove(trace)
	defer os.Remove(trace)
	tok := func(s string) string { return fmt.Sprintf("printf '%s\\n' >> '%s'", s, trace) }
	t := task.NewTask()
	t.Name = fmt.Sprintf("repeat%d", idx)
	n := r.Range(2, 5)
	var want []string
	for i := 0; i < n; i++ {
		if i > 0 && r.Chance(35) {
			t.Commands = append(t.Commands, []string{"", " ", "\n"}[r.Intn(3)])
		}
		t.Commands = append(t.Commands, tok(fmt.Sprint("c", i)))
		want = append(want, fmt.Sprint("c", i))
	}
	if r.Chance(30) {
		t.Commands = append(t.Commands, "")
	}
	if r.Bool() {
		t.Before = []string{tok("before")}
		want = append([]string{"before"}, want...)
	}
	if r.Bool() {
		t.After = []string{tok("after")}
		want = append(want, "after")
	}
	declared := append([]string(nil), t.Commands...)
	out.Begin(fmt.Sprintf("repeat#%d %q", idx, declared))
	rn := newQuietRunner()
	runs := 0
	check := func(how string, times int) {
		got := strings.Fields(h.ReadFile(trace))
		os.Remove(trace)
		var w []string
		for k := 0; k < times; k++ {
			w = append(w, want...)
		}
		runs++
		if strings.Join(got, " ") != strings.Join(w, " ") {
			sig := "commands-missing"
			if len(got) > len(w) {
				sig = "extra-commands-ran"
			}
			out.Viol("C06", sig+"/repeated-run", fmt.Sprintf("run %d (%s) of a task declared as %q executed %v, the statement requires %v", runs, how, declared, got, w), map[string]interface{}{"commands": declared, "run": runs, "how": how, "got": got, "want": w})
		}
	}
	if err := rn.Run(t); err != nil {
		out.Viol("C06", "repeat-run-failed", fmt.Sprintf("task with blank commands %q failed: %v", declared, err), declared)
	}
	check("direct", 1)
	cp := *t
	rn.Run(&cp)
	check("struct copy", 1)
	g, err := scheduler.NewExecutionGraph(&scheduler.Stage{Name: "s1", Task: t}, &scheduler.Stage{Name: "s2", Task: t, DependsOn: []string{"s1"}})
	if err == nil {
		sch := scheduler.NewScheduler(rn)
		sch.VerifSetPause(200 * time.Microsecond)
		sch.Schedule(g)
		check("two stages of one pipeline", 2)
	}
	rn.Run(t)
	check("direct again", 1)
	lockedFinish(rn.Finish)
	out.Count("cases", 1)
	out.Count("repeated_runs", int64(runs))
	out.Nontrivial("C06", fmt.Sprintf("repeat %q", declared))
}

// runHookTimeoutCase: a task with a timeout whose first `after` (or `before`) command outlives the timeout and does
// not die at once on the interrupt; the next hook command starts only when the first one has really ended.
func runHookTimeoutCase(a args, idx int) {
	trace := filepath.Join(a.Work, fmt.Sprintf("htrace.%d", idx))
	os.Remove(trace)
	defer os.Remove(trace)
	tok := func(s string) string { return fmt.Sprintf("printf '%s\\n' >> '%s'", s, trace) }
	script := filepath.Join(a.Work, fmt.Sprintf("hook.%d.sh", idx))
	h.WriteExec(script, []byte(fmt.Sprintf("trap '' INT\nprintf 'h1.start\\n' >> '%s'\nsleep 0.9\nprintf 'h1.end\\n' >> '%s'\n", trace, trace)), 0o755)
	defer os.Remove(script)
	t := task.NewTask()
	t.Name = fmt.Sprintf("hooktimeout%d", idx)
	to := 300 * time.Millisecond
	t.Timeout = &to
	t.Commands = []string{tok("c1")}
	where := "after"
	hooks := []string{"sh '" + script + "'", tok("h2.start")}
	if idx%2 == 1 {
		where = "before"
		t.Before = hooks
	} else {
		t.After = hooks
	}
	out.Begin(fmt.Sprintf("hook-timeout#%d %s", idx, where))
	r := newQuietRunner()
	r.Run(t)
	lockedFinish(r.Finish)
	time.Sleep(1200 * time.Millisecond)
	got := strings.Fields(h.ReadFile(trace))
	out.Count("cases", 1)
	pos := map[string]int{}
	for i, g := range got {
		pos[g] = i + 1
	}
	// whether the second hook command runs at all after the first was cut off is not the point; if it does, it does
	// so after the first has ended (or been killed without writing its end mark)
	if pos["h2.start"] > 0 && pos["h1.end"] > pos["h2.start"] {
		out.Viol("C06", "commands-overlap/"+where+"-hook-after-timeout", fmt.Sprintf("trace %v: the second %s command started while the first (cut off by the task timeout, ignoring the interrupt) was still running", got, where), map[string]interface{}{"trace": got, "where": where})
	}
	out.Nontrivial("C06", fmt.Sprint("hook-timeout", idx))
}

// runChainTimeoutCase: a task with a timeout whose commands each finish well inside it while the whole chain
// (variations x commands) takes longer than one timeout: nothing failed, so every command and `after` run.
func runChainTimeoutCase(a args, idx int) {
	trace := filepath.Join(a.Work, fmt.Sprintf("ctrace.%d", idx))
	tok := func(s string) string { return fmt.Sprintf("sleep 0.6; printf '%s\\n' >> '%s'", s, trace) }
	nvar := 1 + idx%2
	var want []string
	once := func() ([]string, error) {
		os.Remove(trace)
		t := task.NewTask()
		t.Name = fmt.Sprintf("chaintimeout%d", idx)
		to := 2 * time.Second
		t.Timeout = &to
		t.Commands = []string{tok("c1"), tok("c2")}
		if nvar == 1 {
			t.Commands = append(t.Commands, tok("c3"), tok("c4"))
		} else {
			t.Variations = []map[string]string{{"V": "a"}, {"V": "b"}}
		}
		t.After = []string{fmt.Sprintf("printf 'after\\n' >> '%s'", trace)}
		want = nil
		for v := 0; v < nvar; v++ {
			for i := range t.Commands {
				want = append(want, fmt.Sprint("c", i+1))
			}
		}
		want = append(want, "after")
		r := newQuietRunner()
		err := r.Run(t)
		lockedFinish(r.Finish)
		return strings.Fields(h.ReadFile(trace)), err
	}
	defer os.Remove(trace)
	out.Begin(fmt.Sprintf("chain-timeout#%d variations=%d", idx, nvar))
	got, err := once()
	out.Count("cases", 1)
	if strings.Join(got, " ") != strings.Join(want, " ") || err != nil {
		// time-bound: seen again, or not attributed
		got2, err2 := once()
		if strings.Join(got2, " ") == strings.Join(want, " ") && err2 == nil {
			out.Inconclusive("C06", fmt.Sprintf("chain-timeout#%d: trace %v (error %v) once, as required when repeated", idx, got, err))
		} else {
			out.Viol("C06", "commands-missing/chain-longer-than-one-timeout", fmt.Sprintf("trace %v, error %v; every command takes 0.6 s of a 2 s timeout and none fails: the statement requires %v and no error", got2, err2, want), map[string]interface{}{"trace": got2, "want": want})
		}
	}
	out.Nontrivial("C06", fmt.Sprint("chain-timeout", idx))
}

func modeTask(a args) {
	var cases []taskCase
	rnd := h.NewRand(a.Seed, "task")
	if a.Prop != "C07" {
		// the whole grammar of the quantifier
		for n := 1; n <= 3; n++ {
			for v := 0; v <= 3; v++ {
				for fm := 0; fm < 1<<uint(n); fm++ {
					for _, allow := range []bool{false, true} {
						for b := 0; b < 3; b++ {
							for af := 0; af < 3; af++ {
								for cd := 0; cd < 3; cd++ {
									reps := a.n(1, 4)
									for rep := 0; rep < reps; rep++ {
										tcx := taskCase{Commands: n, Variations: v, Allow: allow, Before: b, After: af, Cond: cd, How: "exit"}
										for i := 0; i < n; i++ {
											st := 0
											if fm&(1<<uint(i)) != 0 {
												st = statusDraw[rnd.Intn(len(statusDraw))]
												if rnd.Chance(30) {
													st = rnd.Range(1, 255)
												}
											}
											tcx.Fail = append(tcx.Fail, st)
										}
										if rnd.Chance(3) {
											tcx.Overlap = true
										}
										cases = append(cases, tcx)
									}
								}
							}
						}
					}
				}
			}
		}
		// two `before` commands of which one fails; the same task object run again after a failed run
		for n := 1; n <= 2; n++ {
			for _, b := range []int{3, 4} {
				for af := 0; af < 2; af++ {
					for _, allow := range []bool{false, true} {
						cases = append(cases, taskCase{Commands: n, Fail: make([]int, n), Before: b, After: af, Allow: allow, How: "exit", Variations: af})
					}
				}
			}
		}
		for i := 0; i < a.n(40, 400); i++ {
			n := rnd.Range(1, 3)
			tcx := taskCase{Commands: n, Fail: make([]int, n), Variations: rnd.Intn(3), Before: rnd.Intn(2), After: rnd.Intn(2), Cond: rnd.Intn(2), Rerun: true, How: "exit"}
			if rnd.Chance(30) && n > 1 {
				tcx.Fail[n-1] = rnd.Range(1, 255)
			}
			cases = append(cases, tcx)
		}
		// the task as a pipeline stage: the task's allow_failure and the stage's are different things
		for i := 0; i < a.n(120, 1200); i++ {
			n := rnd.Range(1, 4)
			tcx := taskCase{Commands: n, Variations: rnd.Intn(3), Allow: rnd.Bool(), StageAllow: rnd.Bool(), Before: rnd.Intn(2), After: rnd.Intn(3), Cond: rnd.Intn(3) % 2, How: rnd.Pick([]string{"exit", "subshell", "sh"}), AsStage: true}
			for k := 0; k < n; k++ {
				st := 0
				if rnd.Chance(40) {
					st = rnd.Range(1, 255)
				}
				tcx.Fail = append(tcx.Fail, st)
			}
			cases = append(cases, tcx)
		}
		// every output format with external programs whose coloured output arrives in pieces
		for i := 0; i < a.n(45, 450); i++ {
			n := rnd.Range(1, 3)
			tcx := taskCase{Commands: n, Variations: rnd.Intn(3), Allow: rnd.Bool(), Before: rnd.Intn(2), After: rnd.Intn(2), How: "exit", Format: []string{"raw", "prefixed"}[i%2]}
			for k := 0; k < n; k++ {
				st := 0
				if rnd.Chance(25) {
					st = rnd.Range(1, 255)
				}
				tcx.Fail = append(tcx.Fail, st)
			}
			cases = append(cases, tcx)
		}
		// seeded larger tasks
		for i := 0; i < a.n(300, 3000); i++ {
			n := rnd.Range(4, 8)
			tcx := taskCase{Commands: n, Variations: rnd.Intn(6), Allow: rnd.Bool(), Before: rnd.Intn(3), After: rnd.Intn(3), Cond: rnd.Intn(3), How: rnd.Pick([]string{"exit", "subshell", "sh"})}
			if rnd.Chance(70) {
				tcx.Cond = rnd.Intn(2)
				tcx.Before = rnd.Intn(2)
			}
			for k := 0; k < n; k++ {
				st := 0
				if rnd.Chance(25) {
					st = rnd.Range(1, 255)
				}
				tcx.Fail = append(tcx.Fail, st)
			}
			tcx.Overlap = rnd.Chance(10)
			cases = append(cases, tcx)
		}
	}
	if a.Prop != "C06" {
		// C07: every status at every position of a 3-command task, four ways of producing it
		var statuses []int
		if a.quick() {
			statuses = []int{1, 2, 126, 127, 128, 129, 254, 255}
			for i := 0; i < 24; i++ {
				statuses = append(statuses, rnd.Range(3, 253))
			}
		} else {
			for s := 1; s <= 255; s++ {
				statuses = append(statuses, s)
			}
		}
		for _, s := range statuses {
			for pos := 0; pos < 3; pos++ {
				for _, allow := range []bool{false, true} {
					for hi, how := range []string{"exit", "subshell", "sh", "signal"} {
						if how == "signal" {
							if s != 129 && s != 130 && s != 137 && s != 143 && s != 128+10 {
								continue
							}
						}
						if a.quick() && (s+pos+hi)%2 == 1 && how != "exit" {
							continue
						}
						f := []int{0, 0, 0}
						f[pos] = s
						cases = append(cases, taskCase{Commands: 3, Fail: f, How: how, Allow: allow, AsStage: (s+pos)%3 == 0})
					}
				}
			}
		}
		for _, sg := range []int{129, 130, 137, 143, 138} {
			cases = append(cases, taskCase{Commands: 2, Fail: []int{sg, 0}, How: "signal"})
		}
		// hooks around a failing command must not change what is reported: before/after present, directly and as
		// a stage, with the stage's own allow_failure
		for pos := 0; pos < 3; pos++ {
			for _, allow := range []bool{false, true} {
				for af := 0; af < 3; af++ {
					for b := 0; b < 2; b++ {
						for st := 0; st < 3; st++ {
							f := []int{0, 0, 0}
							f[pos] = rnd.Range(1, 255)
							cases = append(cases, taskCase{Commands: 3, Fail: f, How: rnd.Pick([]string{"exit", "subshell", "sh"}), Allow: allow, After: af, Before: b, Variations: rnd.Intn(3), AsStage: st > 0, StageAllow: st == 2, SkippedSibling: st > 0 && (pos+af+b)%2 == 0})
						}
					}
				}
			}
		}
		cases = append(cases, taskCase{Commands: 2, Fail: []int{0, 0}, AsStage: true}, taskCase{Commands: 1, Fail: []int{0}, Cond: 2, AsStage: true})
	}
	var mine []int
	for i := range cases {
		if a.mine(i) {
			mine = append(mine, i)
		}
	}
	h.Par(len(mine), 8, func(k int) { runTaskCase(a, cases[mine[k]], mine[k], nil) })
	if a.Prop != "C07" {
		for i := 0; i < a.n(60, 600); i++ {
			r := h.NewRand(int64(rnd.U64()), "repeat")
			if a.mine(i) {
				runRepeatCase(a, 2000000+i, r)
			}
		}
		for i := 0; i < a.n(4, 24); i++ {
			if a.mine(i) {
				runHookTimeoutCase(a, 3000000+i)
			}
		}
		if a.Prop == "C06" {
			for i := 0; i < a.n(4, 16); i++ {
				if a.mine(i) {
					runChainTimeoutCase(a, 4000000+i)
				}
			}
		}
	}
}

// modeTaskPar: the same grammar, but 12 tasks at a time run concurrently on ONE TaskRunner —
// every task must still run exactly its own commands in its own order.
func modeTaskPar(a args) {
	rnd := h.NewRand(a.Seed, "taskpar")
	rounds := a.n(150, 2000)
	if a.Race {
		rounds = a.n(60, 400)
	}
	for round := 0; round < rounds; round++ {
		if !a.mine(round) {
			for i := 0; i < 12*4; i++ {
				rnd.U64()
			}
			continue
		}
		r := newQuietRunner()
		var wg sync.WaitGroup
		gate := make(chan struct{})
		for k := 0; k < 12; k++ {
			n := rnd.Range(1, 3)
			tcx := taskCase{Commands: n, Variations: rnd.Intn(4), Allow: rnd.Bool(), How: "exit"}
			for i := 0; i < n; i++ {
				st := 0
				if rnd.Chance(20) {
					st = rnd.Range(1, 255)
				}
				tcx.Fail = append(tcx.Fail, st)
			}
			rnd.U64()
			wg.Add(1)
			go func(tcx taskCase, idx int) {
				defer wg.Done()
				<-gate
				runTaskCase(a, tcx, idx, r)
			}(tcx, 1000000+round*12+k)
		}
		close(gate)
		wg.Wait()
		lockedFinish(r.Finish)
		out.Count("parallel_rounds", 1)
	}
}

func init() {
	modes["taskpar"] = modeTaskPar
	modes["task"] = modeTask
	_ = runner.DefaultContext
}
