// vworker runs in-process workloads against taskctl's public packages and
// reports observations / monitor verdicts as JSON lines on stdout. It is a
// child of vcheck: a crash here is seen (and attributed) by the parent.
package main

import (
	"encoding/json"
	"fmt"
	"os"
	"sort"
	"strconv"
	"sync"

	"verif/internal/h"
)

type emitter struct {
	mu       sync.Mutex
	enc      *json.Encoder
	counters map[string]int64
	nontriv  map[string]map[string]bool // prop -> hashed keys
	distinct map[string]map[string]bool // kind -> hashed keys
	samples  map[string]int
}

var out = &emitter{enc: json.NewEncoder(os.Stdout), counters: map[string]int64{}, nontriv: map[string]map[string]bool{},
	distinct: map[string]map[string]bool{}, samples: map[string]int{}}

func (e *emitter) line(v interface{}) {
	e.mu.Lock()
	e.enc.Encode(v)
	e.mu.Unlock()
}

// Viol reports a refuting observation for a property.
func (e *emitter) Viol(prop, sig, what string, cas interface{}) {
	e.line(map[string]interface{}{"k": "viol", "prop": prop, "sig": sig, "what": what, "case": cas})
}
func (e *emitter) Inconclusive(prop, what string) {
	e.line(map[string]interface{}{"k": "inconclusive", "prop": prop, "what": what})
}
func (e *emitter) Begin(id string) { e.line(map[string]interface{}{"k": "begin", "case": id}) }
func (e *emitter) Count(k string, n int64) {
	e.mu.Lock()
	e.counters[k] += n
	e.mu.Unlock()
}
func (e *emitter) Nontrivial(prop, key string) {
	e.mu.Lock()
	if e.nontriv[prop] == nil {
		e.nontriv[prop] = map[string]bool{}
	}
	e.nontriv[prop][h.Hash(key)] = true
	e.mu.Unlock()
}
func (e *emitter) Distinct(kind, key string) {
	e.mu.Lock()
	if e.distinct[kind] == nil {
		e.distinct[kind] = map[string]bool{}
	}
	e.distinct[kind][h.Hash(key)] = true
	e.mu.Unlock()
}
func (e *emitter) Sample(prop string, v interface{}) {
	e.mu.Lock()
	n := e.samples[prop]
	e.samples[prop]++
	e.mu.Unlock()
	if n < 3 {
		e.line(map[string]interface{}{"k": "sample", "prop": prop, "v": v})
	}
}
func (e *emitter) Flush() {
	e.mu.Lock()
	defer e.mu.Unlock()
	nt := map[string][]string{}
	for p, m := range e.nontriv {
		for k := range m {
			nt[p] = append(nt[p], k)
		}
		sort.Strings(nt[p])
	}
	ds := map[string][]string{}
	for p, m := range e.distinct {
		for k := range m {
			ds[p] = append(ds[p], k)
		}
		sort.Strings(ds[p])
	}
	e.enc.Encode(map[string]interface{}{"k": "end", "counters": e.counters, "nontrivial": nt, "distinct": ds})
}

type args struct {
	Mode   string
	Prop   string
	Tier   string
	Seed   int64
	Shard  int
	Shards int
	Work   string
	Race   bool
	Extra  map[string]string
}

func (a args) quick() bool { return a.Tier != "thorough" }
func (a args) n(q, t int) int {
	if a.quick() {
		return q
	}
	return t
}
func (a args) mine(i int) bool { return a.Shards <= 1 || i%a.Shards == a.Shard }

func main() {
	if len(os.Args) < 2 {
		fmt.Fprintln(os.Stderr, "usage: vworker <mode> key=value...")
		os.Exit(2)
	}
	a := args{Mode: os.Args[1], Tier: "quick", Seed: 1, Shards: 1, Extra: map[string]string{}}
	for _, kv := range os.Args[2:] {
		k, v := kv, ""
		for i := 0; i < len(kv); i++ {
			if kv[i] == '=' {
				k, v = kv[:i], kv[i+1:]
				break
			}
		}
		switch k {
		case "prop":
			a.Prop = v
		case "tier":
			a.Tier = v
		case "seed":
			a.Seed, _ = strconv.ParseInt(v, 10, 64)
		case "shard":
			a.Shard, _ = strconv.Atoi(v)
		case "shards":
			a.Shards, _ = strconv.Atoi(v)
		case "work":
			a.Work = v
		case "race":
			a.Race = v == "1"
		default:
			a.Extra[k] = v
		}
	}
	if a.Work == "" {
		a.Work = os.TempDir()
	}
	f, ok := modes[a.Mode]
	if !ok {
		fmt.Fprintln(os.Stderr, "unknown mode", a.Mode)
		os.Exit(2)
	}
	f(a)
	out.Flush()
}

var modes = map[string]func(args){}
