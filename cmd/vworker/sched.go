package main

// Controlled-schedule exploration of pkg/scheduler (C01–C04).
//
// A GateRunner parks every Run call; the explorer decides which parked task
// completes next (and with which outcome), so one execution = one completion
// order. Monitors: online ordering check at Run entry (C01), reference model
// for eligible sets (C04), final statuses / error flag / determinism across
// orders (C02), exactly-once and termination (C03).

import (
	"encoding/json"
	"errors"
	"fmt"
	"os"
	"path/filepath"
	"sort"
	"strings"
	"sync"
	"sync/atomic"
	"time"

	"github.com/taskctl/taskctl/pkg/scheduler"
	"github.com/taskctl/taskctl/pkg/task"

	"verif/internal/h"
)

const (
	oOK = iota
	oFail
	oFailAllow
	oCondFalse
)

type stageSpec struct {
	Name    string     `json:"name"`
	Deps    []string   `json:"deps,omitempty"`
	Outcome int        `json:"outcome"` // 0 ok, 1 fails, 2 fails+allow_failure, 3 condition false
	Nested  *graphSpec `json:"nested,omitempty"`
	SameAs  string     `json:"same_pipeline_as,omitempty"` // includes the very pipeline (same graph object) that this other stage includes
	Cond    bool       `json:"cond,omitempty"` // has a (true) condition file the explorer can break
}
type graphSpec struct {
	Stages []stageSpec `json:"stages"` // in declaration order
}

// ---------------------------------------------------------------- model

const (
	mWaiting = iota
	mRunning
	mFinal
)

type mstage struct {
	spec     *stageSpec
	full     string
	g        *mgraph
	st       int
	final    int32
	inner    *mgraph
	u        bool // uncertain (don't-care region): no expectation, observation only
	released bool
	real     *scheduler.Stage
}
type mgraph struct {
	prefix string
	stages []*mstage
	by     map[string]*mstage
	parent *mstage
	also   []*mstage // further stages that include this same pipeline
	real   *scheduler.ExecutionGraph
}

func newModel(spec *graphSpec, prefix string, parent *mstage, all map[string]*mstage) *mgraph {
	g := &mgraph{prefix: prefix, by: map[string]*mstage{}, parent: parent}
	for i := range spec.Stages {
		s := &mstage{spec: &spec.Stages[i], full: prefix + spec.Stages[i].Name, g: g}
		g.stages = append(g.stages, s)
		g.by[s.spec.Name] = s
		all[s.full] = s
		if s.spec.Nested != nil {
			s.inner = newModel(s.spec.Nested, s.full+"/", s, all)
		}
	}
	for _, s := range g.stages {
		if s.spec.SameAs != "" {
			if first := g.by[s.spec.SameAs]; first != nil && first.inner != nil {
				s.inner = first.inner
				first.inner.also = append(first.inner.also, s)
			}
		}
	}
	g.markUncertain()
	return g
}

func (s *mstage) mayFailHard() bool {
	if s.inner != nil {
		if s.spec.Outcome == oFailAllow || s.spec.Outcome == oCondFalse {
			return false
		}
		for _, x := range s.inner.stages {
			if x.mayFailHard() {
				return true
			}
		}
		return false
	}
	return s.spec.Outcome == oFail
}

func (g *mgraph) ancestors(s *mstage, seen map[*mstage]bool) {
	for _, d := range s.spec.Deps {
		if a := g.by[d]; a != nil && !seen[a] {
			seen[a] = true
			g.ancestors(a, seen)
		}
	}
}

// markUncertain computes the don't-care region: a cond-false stage behind a
// hard failure (Skipped or Canceled are both acceptable) and everything that
// depends on it; a nested stage whose inner graph has such a region.
func (g *mgraph) markUncertain() {
	for _, s := range g.stages {
		if s.spec.Outcome == oCondFalse {
			anc := map[*mstage]bool{}
			g.ancestors(s, anc)
			for a := range anc {
				if a.mayFailHard() {
					s.u = true
				}
			}
		}
		if s.inner != nil {
			for _, x := range s.inner.stages {
				if x.u {
					s.u = true
				}
			}
		}
	}
	for changed := true; changed; {
		changed = false
		for _, s := range g.stages {
			// one uncertain includer makes the shared pipeline (and so every other includer) uncertain
			if !s.u && s.inner != nil && len(s.inner.also) > 0 {
				for _, inc := range s.inner.includers() {
					if inc.u {
						s.u = true
						changed = true
					}
				}
			}
		}
		for _, s := range g.stages {
			if s.u {
				continue
			}
			for _, d := range s.spec.Deps {
				if a := g.by[d]; a != nil && a.u {
					s.u = true
					changed = true
				}
			}
		}
	}
	for _, s := range g.stages {
		if s.u && s.inner != nil {
			s.inner.markAllUncertain()
		}
	}
}
func (g *mgraph) markAllUncertain() {
	for _, s := range g.stages {
		s.u = true
		if s.inner != nil {
			s.inner.markAllUncertain()
		}
	}
}

// includers returns every stage that includes this graph (none for the top-level graph).
func (g *mgraph) includers() []*mstage {
	if g.parent == nil {
		return nil
	}
	return append([]*mstage{g.parent}, g.also...)
}

func (g *mgraph) done() bool {
	for _, s := range g.stages {
		if s.st != mFinal {
			return false
		}
	}
	return true
}
func (g *mgraph) err() bool {
	for _, s := range g.stages {
		if s.st == mFinal && s.final == scheduler.StatusError {
			return true
		}
	}
	return false
}

// settle advances every non-uncertain stage as far as the statement allows.
func (g *mgraph) settle() {
	for changed := true; changed; {
		changed = false
		for _, s := range g.stages {
			if s.u {
				continue
			}
			switch s.st {
			case mWaiting:
				if s.spec.Outcome == oCondFalse {
					s.st, s.final = mFinal, scheduler.StatusSkipped
					changed = true
					continue
				}
				ready, cancel := true, false
				for _, d := range s.spec.Deps {
					a := g.by[d]
					if a.st != mFinal {
						ready = false
						continue
					}
					if a.final == scheduler.StatusError || a.final == scheduler.StatusCanceled {
						cancel = true
					}
				}
				if cancel {
					s.st, s.final = mFinal, scheduler.StatusCanceled
					changed = true
				} else if ready {
					s.st = mRunning
					changed = true
					if s.inner != nil {
						s.inner.settle()
					}
				}
			case mRunning:
				if s.inner != nil {
					s.inner.settle()
					if s.inner.done() {
						s.st = mFinal
						s.final = scheduler.StatusDone
						if s.inner.err() && s.spec.Outcome != oFailAllow {
							s.final = scheduler.StatusError
						}
						changed = true
					}
				}
			}
		}
	}
}

func (s *mstage) finish() {
	s.st = mFinal
	switch s.spec.Outcome {
	case oFail:
		s.final = scheduler.StatusError
	default:
		s.final = scheduler.StatusDone
	}
}

// must collects the leaves that have to be parked in the runner right now.
func (g *mgraph) must(out map[string]bool) {
	for _, s := range g.stages {
		if s.u || s.st != mRunning {
			continue
		}
		if s.inner != nil {
			s.inner.must(out)
		} else if !s.released {
			out[s.full] = true
		}
	}
}

// ---------------------------------------------------------------- gate runner

type gate struct {
	x *execution
}

type parked struct {
	ch chan error
}

func (g gate) Run(t *task.Task) error {
	x := g.x
	x.mu.Lock()
	x.seq++
	x.lastAct = time.Now()
	x.lastEnter = x.lastAct
	x.enters[t.Name]++
	x.events = append(x.events, "enter:"+t.Name)
	if x.cancelRet {
		x.afterCancel = append(x.afterCancel, t.Name)
	}
	if !x.cancelled {
		// after a cancellation the gate has released everything with an error behind the model's back; what is
		// handed to the (refusing) runner from then on says nothing about dependency order
		x.onEnter(t.Name)
	}
	if x.cancelled {
		x.events = append(x.events, "return:"+t.Name+":cancelled")
		x.mu.Unlock()
		return errors.New("cancelled")
	}
	inShared := false
	if s := x.all[t.Name]; s != nil {
		// (not inside a pipeline included by several stages: there two loops ask the condition independently, and a
		// condition that changes its answer between them is outside the statement)
		for g := s.g; g != nil && g.parent != nil; g = g.parent.g {
			if len(g.also) > 0 {
				inShared = true
			}
		}
	}
	if s := x.all[t.Name]; s != nil && !inShared && s.spec.Cond && s.spec.Outcome != oCondFalse && x.condDir != "" && x.strat.CancelKind != "cond" {
		// the stage has been started because its condition held; from now on the condition command answers
		// "false" - what it says while (or after) the stage runs must not matter any more
		lp := filepath.Join(x.condDir, strings.ReplaceAll(s.full, "/", "_"))
		if os.Symlink("/bin/false", lp+".flip") == nil {
			os.Rename(lp+".flip", lp)
		}
	}
	p := &parked{ch: make(chan error, 1)}
	x.parked[t.Name] = p
	x.lastChange = x.ticksTotal
	x.resetTicks()
	x.cond.Broadcast()
	x.mu.Unlock()
	err := <-p.ch
	return err
}

func (g gate) Cancel() {
	x := g.x
	x.mu.Lock()
	x.cancelled = true
	for name, p := range x.parked {
		x.events = append(x.events, "return:"+name+":cancelled")
		p.ch <- errors.New("cancelled")
		delete(x.parked, name)
	}
	x.cond.Broadcast()
	x.mu.Unlock()
}
func (g gate) Finish() {}

// ---------------------------------------------------------------- execution

type strategy struct {
	Choices    []int  `json:"choices"`               // index into the sorted parked set, per step
	Random     int64  `json:"random,omitempty"`      // != 0: choices beyond the prefix are drawn from this seed
	Burst      bool   `json:"burst,omitempty"`       // random: sometimes release several tasks at once
	AllAtOnce  bool   `json:"all_at_once,omitempty"` // DFS: add the branch "all parked tasks complete together" at every step
	Subsets    bool   `json:"subsets,omitempty"`     // DFS: branch over every non-empty subset of the parked tasks completing together
	CancelAt   int    `json:"cancel_at"`             // step at which cancellation is injected, -1 = never
	CancelKind string `json:"cancel_kind,omitempty"` // caller | cond
}

type execution struct {
	spec  *graphSpec
	strat strategy

	mu   sync.Mutex
	cond *sync.Cond

	all    map[string]*mstage
	model  *mgraph
	graphs map[*scheduler.ExecutionGraph]*mgraph
	ticks  map[*scheduler.ExecutionGraph]int

	ticksTotal, lastChange int
	bySilence              int
	lastAct, lastEnter     time.Time // last scheduler pass or runner entry (for the silence fallback only)
	started                time.Time
	lastTick               map[*scheduler.ExecutionGraph]time.Time
	seq                    int
	parked                 map[string]*parked
	enters                 map[string]int
	events                 []string
	cancelled, cancelRet   bool
	afterCancel            []string
	returned               bool
	viols                  []xviol
	maxInFlight            int
	maxEligible            int
	options                []int // number of options at each step (for the DFS odometer)
	taken                  []int
	condDir                string
}

type xviol struct{ prop, sig, what string }

func (x *execution) violate(prop, sig, what string) {
	x.viols = append(x.viols, xviol{prop, sig, what})
}

func (x *execution) resetTicks() {
	for k := range x.ticks {
		x.ticks[k] = 0
	}
}

// onEnter is the online C01 monitor; called with x.mu held.
func (x *execution) onEnter(name string) {
	s := x.all[name]
	if s == nil {
		x.violate("C03", "unknown-task-run", "runner was asked to run unknown task "+name)
		return
	}
	if x.enters[name] > 1 {
		x.violate("C03", "stage-run-twice", fmt.Sprintf("stage %s handed to the runner %d times", name, x.enters[name]))
	}
	for cur := s; cur != nil; cur = cur.g.parent {
		if cur != s && len(cur.inner.also) > 0 {
			// the pipeline is included by several stages: it may run as soon as ONE of them has started
			started := false
			for _, inc := range cur.inner.includers() {
				if inc.st != mWaiting || inc.u {
					started = true
				}
			}
			if !started {
				x.violate("C01", "start-before-dependency-finished", fmt.Sprintf("%s (inside a pipeline included by several stages) entered the runner before any including stage was started", name))
			}
			break
		}
		if cur.spec.Outcome == oCondFalse {
			x.violate("C02", "skipped-stage-ran", fmt.Sprintf("stage %s has a false condition but %s was run", cur.full, name))
		}
		for _, dn := range cur.spec.Deps {
			d := cur.g.by[dn]
			if d == nil {
				continue
			}
			if !d.u {
				switch {
				case d.spec.Outcome == oCondFalse:
				case d.st != mFinal:
					x.violate("C01", "start-before-dependency-finished", fmt.Sprintf("%s entered the runner while its dependency %s had not finished (model state %d, released=%v)", name, d.full, d.st, d.released))
				case d.final == scheduler.StatusError || d.final == scheduler.StatusCanceled:
					x.violate("C02", "ran-behind-failed-dependency", fmt.Sprintf("%s was run although its dependency %s ended %s", name, d.full, statusName(d.final)))
					x.violate("C01", "start-behind-failed-dependency", fmt.Sprintf("%s was run although its dependency %s ended %s", name, d.full, statusName(d.final)))
				}
			} else {
				// uncertain dependency: it must at least not be waiting or in flight
				rs := d.real.ReadStatus()
				ok := d.spec.Outcome == oCondFalse || (d.st == mFinal) || rs == scheduler.StatusSkipped
				if d.inner == nil && !d.released && d.spec.Outcome != oCondFalse && rs != scheduler.StatusSkipped {
					ok = false
				}
				if d.inner != nil && (rs == scheduler.StatusDone || (rs == scheduler.StatusError && d.real.AllowFailure)) {
					// an included pipeline in the don't-care region is not tracked by the model: it has finished when
					// the scheduler says so and none of its tasks is in flight any more
					ok = true
					for nm := range x.parked {
						if strings.HasPrefix(nm, d.full+"/") {
							ok = false
						}
					}
				}
				if !ok {
					x.violate("C01", "start-before-dependency-finished", fmt.Sprintf("%s entered the runner while its dependency %s had not finished (real status %s)", name, d.full, statusName(rs)))
				}
			}
		}
	}
	if s.u {
		s.st = mRunning
	}
}

func statusName(s int32) string {
	switch s {
	case scheduler.StatusWaiting:
		return "Waiting"
	case scheduler.StatusRunning:
		return "Running"
	case scheduler.StatusSkipped:
		return "Skipped"
	case scheduler.StatusDone:
		return "Done"
	case scheduler.StatusError:
		return "Error"
	case scheduler.StatusCanceled:
		return "Canceled"
	}
	return fmt.Sprint(s)
}

var execSeq int64
var execByGraph sync.Map // *scheduler.ExecutionGraph -> *execution
var execByStage sync.Map // *scheduler.Stage -> *execution

func init() {
	scheduler.VerifSetHandler(func(point string, a ...interface{}) {
		switch point {
		case "sched.pass":
			g := a[1].(*scheduler.ExecutionGraph)
			if v, ok := execByGraph.Load(g); ok {
				x := v.(*execution)
				x.mu.Lock()
				x.ticks[g]++
				x.ticksTotal++
				x.lastAct = time.Now()
				x.lastTick[g] = x.lastAct
				x.cond.Broadcast()
				x.mu.Unlock()
			}
		case "sched.stage.errored":
			// the stage is Error and not yet Done (allow_failure) / recorded: keep it there for two full passes
			st := a[0].(*scheduler.Stage)
			if v, ok := execByStage.Load(st); ok {
				x := v.(*execution)
				x.mu.Lock()
				start := x.ticksTotal
				deadline := time.Now().Add(50 * time.Millisecond)
				for x.ticksTotal < start+2 && !x.returned && time.Now().Before(deadline) {
					x.mu.Unlock()
					time.Sleep(50 * time.Microsecond)
					x.mu.Lock()
				}
				x.mu.Unlock()
			}
			if f, ok := schedDelay.Load().(func(string)); ok && f != nil {
				f(point)
			}
		default:
			if f, ok := schedDelay.Load().(func(string)); ok && f != nil {
				f(point)
			}
		}
	})
}

var schedDelay atomic.Value

func (x *execution) build(spec *graphSpec, m *mgraph) (*scheduler.ExecutionGraph, error) {
	var stages, shared []*scheduler.Stage
	for i := range spec.Stages {
		sp := &spec.Stages[i]
		ms := m.by[sp.Name]
		st := &scheduler.Stage{Name: sp.Name, DependsOn: append([]string(nil), sp.Deps...)}
		switch sp.Outcome {
		case oFailAllow:
			st.AllowFailure = true
		case oCondFalse:
			st.Condition = "/bin/false"
		}
		if sp.Cond && sp.Outcome != oCondFalse {
			p := filepath.Join(x.condDir, strings.ReplaceAll(ms.full, "/", "_"))
			// a symlink to a binary: removing it makes exec fail atomically (a script would be
			// re-opened by its interpreter and could exit 127 = "condition false" instead)
			os.Symlink("/bin/true", p)
			st.Condition = p
		}
		if sp.Nested != nil {
			ig, err := x.build(sp.Nested, ms.inner)
			if err != nil {
				return nil, err
			}
			st.Pipeline = ig
		} else if sp.SameAs != "" {
			shared = append(shared, st)
		} else {
			t := task.NewTask()
			t.Name = ms.full
			st.Task = t
		}
		ms.real = st
		execByStage.Store(st, x)
		stages = append(stages, st)
	}
	for _, st := range shared {
		for i := range spec.Stages {
			if spec.Stages[i].Name == st.Name {
				st.Pipeline = m.by[spec.Stages[i].SameAs].real.Pipeline
			}
		}
	}
	g, err := scheduler.NewExecutionGraph(stages...)
	if err != nil {
		return nil, err
	}
	m.real = g
	x.graphs[g] = m
	x.ticks[g] = 0
	execByGraph.Store(g, x)
	return g, nil
}

func (x *execution) waitingWithCond() bool {
	for _, s := range x.all {
		if s.spec.Cond && s.st == mWaiting && !s.u && !neverScheduled(s) && (s.g.parent == nil || anyRunning(s.g.includers())) {
			return true
		}
	}
	return false
}

func (x *execution) activeTicked(n int) bool {
	for g, m := range x.graphs {
		active := m.parent == nil || (anyRunning(m.includers()) && !m.done())
		for _, inc := range m.includers() {
			if inc.u {
				active = false
			}
		}
		if active && x.ticks[g] < n {
			return false
		}
	}
	return true
}

// silentOrTicked is activeTicked where a graph whose loop has made no pass for silenceFor counts as settled: a
// loop with nothing left to launch may stop making passes while its stages run.
func (x *execution) silentOrTicked(n int) bool {
	now := time.Now()
	silent := false
	for g, m := range x.graphs {
		active := m.parent == nil || (anyRunning(m.includers()) && !m.done())
		for _, inc := range m.includers() {
			if inc.u {
				active = false
			}
		}
		if active && x.ticks[g] < n {
			lt, ok := x.lastTick[g]
			if !ok {
				lt = x.started
			}
			if now.Sub(lt) < silenceFor || now.Sub(x.lastEnter) < silenceFor {
				return false
			}
			silent = true
		}
	}
	return silent
}

type execResult struct {
	viols       []xviol
	suspect     string // watchdog fired: needs re-confirmation
	statusVec   string
	errFlag     bool
	events      []string
	options     []int
	taken       []int
	maxInFlight int
	bySilence   int
	rejected    bool
	cancelled   bool
}

var pauseFor = 100 * time.Microsecond
var quiesceWatchdog = 10 * time.Second
var silenceFor = 250 * time.Millisecond

func runExecution(spec *graphSpec, strat strategy, work string) (res execResult) {
	x := &execution{spec: spec, strat: strat, all: map[string]*mstage{}, graphs: map[*scheduler.ExecutionGraph]*mgraph{},
		ticks: map[*scheduler.ExecutionGraph]int{}, lastTick: map[*scheduler.ExecutionGraph]time.Time{}, started: time.Now(), parked: map[string]*parked{}, enters: map[string]int{}}
	x.cond = sync.NewCond(&x.mu)
	n := atomic.AddInt64(&execSeq, 1)
	if needsCondDir(spec) {
		x.condDir = filepath.Join(work, fmt.Sprintf("cond.%d.%d", os.Getpid(), n))
		os.MkdirAll(x.condDir, 0o755)
		defer os.RemoveAll(x.condDir)
	}
	x.model = newModel(spec, "", nil, x.all)
	g, err := x.build(spec, x.model)
	defer func() {
		for gg := range x.graphs {
			execByGraph.Delete(gg)
		}
		for _, ms := range x.all {
			if ms.real != nil {
				execByStage.Delete(ms.real)
			}
		}
	}()
	if err != nil {
		res.rejected = true
		return
	}
	sch := scheduler.NewScheduler(gate{x})
	sch.VerifSetPause(pauseFor)
	var schedErr error
	done := make(chan struct{})
	x.model.settle() // before the scheduler can hand anything to the runner
	go func() {
		schedErr = sch.Schedule(g)
		x.mu.Lock()
		x.returned = true
		x.cond.Broadcast()
		x.mu.Unlock()
		close(done)
	}()
	// a ticker wakes the waiters so that the watchdog can be evaluated
	stopTick := make(chan struct{})
	go func() {
		t := time.NewTicker(50 * time.Millisecond)
		defer t.Stop()
		for {
			select {
			case <-stopTick:
				return
			case <-t.C:
				x.mu.Lock()
				x.cond.Broadcast()
				x.mu.Unlock()
			}
		}
	}()
	defer close(stopTick)

	var rnd *h.Rand
	if strat.Random != 0 {
		rnd = h.NewRand(strat.Random, "order")
	}
	x.mu.Lock()
	x.model.settle()
	step := 0
	cancelledRun := false
	for {
		// ---- wait for a logical quiescent point
		must := map[string]bool{}
		x.model.must(must)
		deadline := time.Now().Add(quiesceWatchdog)
		timedOut := false
		for {
			if x.returned {
				break
			}
			have := true
			for k := range must {
				if _, ok := x.parked[k]; !ok {
					have = false
				}
			}
			if have && x.activeTicked(2) {
				break
			}
			if have && len(x.parked) > 0 && x.silentOrTicked(2) {
				// every start the model predicts has happened and the scheduling loops are silent: a loop that has
				// nothing left to launch may legitimately stop making passes while its stages run. Exploration goes on
				// (a stage that starts later is still seen by the monitors when it enters the runner).
				x.bySilence++
				break
			}
			if time.Now().After(deadline) {
				timedOut = true
				break
			}
			x.cond.Wait()
		}
		if timedOut {
			var missing []string
			for k := range must {
				if _, ok := x.parked[k]; !ok {
					missing = append(missing, k)
				}
			}
			sort.Strings(missing)
			if len(missing) > 0 {
				res.suspect = fmt.Sprintf("eligible stages %v were not started within %s (in flight: %v)", missing, quiesceWatchdog, keys(x.parked))
				if len(x.parked) > 0 {
					res.suspect = "C04|eligible-not-started-while-others-in-flight|" + res.suspect
				} else {
					res.suspect = "C03|eligible-never-started|" + res.suspect
				}
			} else {
				res.suspect = "C03|scheduler-pass-stalled|the scheduling loop made no pass for " + quiesceWatchdog.String()
			}
			// let everything go so that the goroutines end
			x.mu.Unlock()
			gate{x}.Cancel()
			go sch.Cancel() // clean-up only; must not be able to block the explorer
			select {
			case <-done:
			case <-time.After(5 * time.Second):
			}
			x.mu.Lock()
			break
		}
		if len(x.parked) > x.maxInFlight {
			x.maxInFlight = len(x.parked)
		}
		if x.returned {
			break
		}
		if len(x.parked) == 0 {
			// nothing is in flight: the scheduler must either return or start something (stages of the
			// don't-care region are not predicted by the model and may start late)
			deadline := time.Now().Add(quiesceWatchdog)
			for !x.returned && len(x.parked) == 0 && time.Now().Before(deadline) {
				x.cond.Wait()
			}
			if x.returned || len(x.parked) == 0 {
				break // returned, or stuck: the wait for `done` below reports it
			}
			continue
		}
		names := keys(x.parked)
		// ---- cancellation injected at this explorer state?
		if strat.CancelAt == step && (strat.CancelKind != "cond" || x.waitingWithCond()) {
			cancelledRun = true
			x.events = append(x.events, "CANCEL_CALL:"+strat.CancelKind)
			if strat.CancelKind == "cond" {
				// break the condition of every waiting stage that has one
				os.RemoveAll(x.condDir)
				x.mu.Unlock()
			} else {
				x.mu.Unlock()
				cret := make(chan struct{})
				go func() { sch.Cancel(); close(cret) }()
				select {
				case <-cret:
				case <-time.After(quiesceWatchdog):
					x.mu.Lock()
					x.violate("C03", "cancel-did-not-return", "Scheduler.Cancel did not return within "+quiesceWatchdog.String())
					x.mu.Unlock()
				}
				x.mu.Lock()
				x.cancelRet = true
				x.events = append(x.events, "CANCEL_RET")
				x.mu.Unlock()
			}
			break
		}
		// ---- choose which task completes next
		var pick []string
		opt := len(names)
		if opt > 1 && strat.AllAtOnce {
			opt++ // one more branch: everything in flight completes at the same time
		}
		if strat.Subsets && len(names) <= 5 {
			opt = 1<<uint(len(names)) - 1 // every non-empty subset of the tasks in flight completes together
		}
		choice := 0
		if step < len(strat.Choices) {
			choice = strat.Choices[step] % opt
		} else if rnd != nil {
			choice = rnd.Intn(opt)
		}
		switch {
		case strat.Subsets && len(names) <= 5:
			for b, nm := range names {
				if (choice+1)&(1<<uint(b)) != 0 {
					pick = append(pick, nm)
				}
			}
		case choice == len(names):
			pick = append(pick, names...)
		default:
			pick = []string{names[choice]}
		}
		if rnd != nil && strat.Burst && opt > 1 && rnd.Chance(40) {
			for _, nm := range names {
				if nm != names[choice] && rnd.Bool() {
					pick = append(pick, nm)
				}
			}
		}
		x.options = append(x.options, opt)
		x.taken = append(x.taken, choice)
		for _, nm := range pick {
			s := x.all[nm]
			s.released = true
			s.finish()
			var rerr error
			if s.spec.Outcome == oFail || s.spec.Outcome == oFailAllow {
				rerr = errors.New("exit status 1")
			}
			x.events = append(x.events, "return:"+nm)
			p := x.parked[nm]
			delete(x.parked, nm)
			p.ch <- rerr
		}
		x.model.settle()
		x.resetTicks()
		step++
	}
	unlocked := false
	if cancelledRun {
		unlocked = true // the cancel branch released the lock
	}
	if !unlocked {
		x.mu.Unlock()
	}
	// ---- the run has to return now
	if res.suspect == "" {
		select {
		case <-done:
		case <-time.After(quiesceWatchdog):
			x.mu.Lock()
			res.suspect = fmt.Sprintf("C03|schedule-did-not-return|Schedule did not return within %s although nothing is in flight (parked: %v, cancelled=%v)", quiesceWatchdog, keys(x.parked), cancelledRun)
			if os.Getenv("VERIF_DEBUG_DUMP") != "" {
				for k, s := range x.all {
					_, e := os.Stat(s.real.Condition)
					fmt.Fprintf(os.Stderr, "DEBUG %s status=%s cond=%q stat=%v model=%d\n", k, statusName(s.real.ReadStatus()), s.real.Condition, e, s.st)
				}
				fmt.Fprintf(os.Stderr, "DEBUG events=%v ticks=%v\n", x.events, x.ticksTotal)
			}
			x.mu.Unlock()
			gate{x}.Cancel()
			go sch.Cancel() // clean-up only; must not be able to block the explorer
			select {
			case <-done:
			case <-time.After(5 * time.Second):
			}
		}
	}
	x.mu.Lock()
	defer x.mu.Unlock()
	res.cancelled = cancelledRun
	res.events = x.events
	res.options, res.taken = x.options, x.taken
	res.maxInFlight = x.maxInFlight
	res.bySilence = x.bySilence
	if res.suspect != "" {
		res.viols = x.viols
		return
	}
	// ---- final checks
	var vec []string
	full := make([]string, 0, len(x.all))
	for k := range x.all {
		full = append(full, k)
	}
	sort.Strings(full)
	for _, k := range full {
		s := x.all[k]
		rs := s.real.ReadStatus()
		vec = append(vec, k+"="+statusName(rs))
		if cancelledRun {
			if rs == scheduler.StatusRunning {
				x.violate("C03", "running-after-cancelled-return", fmt.Sprintf("stage %s is still Running after the cancelled run returned", k))
			}
			if x.enters[k] > 1 {
				x.violate("C03", "stage-run-twice", fmt.Sprintf("stage %s ran %d times", k, x.enters[k]))
			}
			continue
		}
		if rs == scheduler.StatusWaiting || rs == scheduler.StatusRunning {
			// a stage of an inner graph that was never scheduled legitimately stays Waiting
			if !neverScheduled(s) {
				x.violate("C03", "stage-left-"+strings.ToLower(statusName(rs)), fmt.Sprintf("stage %s is %s after Schedule returned", k, statusName(rs)))
			}
		}
		if s.inner == nil {
			ran := x.enters[k]
			if ran > 1 {
				x.violate("C03", "stage-run-twice", fmt.Sprintf("stage %s ran %d times", k, ran))
			}
			if !s.u {
				want := 0
				if s.released || s.st == mRunning {
					want = 1
				}
				_ = want
				shouldRun := s.st == mFinal && s.released
				if shouldRun && ran == 0 {
					x.violate("C03", "eligible-stage-not-run", fmt.Sprintf("stage %s should have run once, ran %d times", k, ran))
				}
				if !shouldRun && ran > 0 && s.st == mFinal {
					x.violate("C02", "cancelled-or-skipped-stage-ran", fmt.Sprintf("stage %s must not run (model: %s) but ran", k, statusName(s.final)))
				}
			}
		}
		if !s.u && !neverScheduled(s) {
			if s.st != mFinal {
				x.violate("C03", "model-not-final", fmt.Sprintf("stage %s: run returned while the model still expects work (state %d)", k, s.st))
			} else if rs != s.final {
				x.violate("C02", "final-status-differs-from-model", fmt.Sprintf("stage %s ended %s, the statement requires %s", k, statusName(rs), statusName(s.final)))
			}
		} else if s.u {
			// consistency only
			ran := x.enters[k] > 0
			if s.inner == nil {
				if ran && rs != scheduler.StatusDone && rs != scheduler.StatusError {
					x.violate("C02", "ran-but-status-not-final", fmt.Sprintf("stage %s ran but ended %s", k, statusName(rs)))
				}
				if !ran && (rs == scheduler.StatusDone || rs == scheduler.StatusError) {
					x.violate("C02", "status-final-but-never-ran", fmt.Sprintf("stage %s ended %s without being run", k, statusName(rs)))
				}
			}
		}
	}
	res.statusVec = strings.Join(vec, ",")
	res.errFlag = schedErr != nil
	if !cancelledRun {
		wantErr := false
		for _, s := range x.model.stages {
			rs := s.real.ReadStatus()
			if rs == scheduler.StatusError && !s.real.AllowFailure {
				wantErr = true
			}
			if !s.u && s.st == mFinal && s.final == scheduler.StatusError {
				wantErr = true
			}
		}
		if wantErr != res.errFlag {
			x.violate("C02", "error-flag-differs", fmt.Sprintf("Schedule returned error=%v, the statement requires error=%v (statuses %s)", res.errFlag, wantErr, res.statusVec))
		}
	}
	// A stage handed to the runner after Cancel returned is not a violation by itself: the scheduling pass that
	// was under way may still launch it, and a cancelled runner refuses it without starting a command (the gate
	// does the same). Whether a *command* starts after cancellation is decided with the real runner in C12.
	if cancelledRun {
		out.Count("runs_refused_after_cancel", int64(len(x.afterCancel)))
	}
	res.viols = x.viols
	return
}

// neverScheduled: stage of an inner graph whose enclosing nested stage never started.
func neverScheduled(s *mstage) bool {
	for g := s.g; g.parent != nil; g = g.parent.g {
		never := true
		for _, p := range g.includers() {
			if p.u {
				return true
			}
			if !(p.st == mFinal && (p.final == scheduler.StatusSkipped || p.final == scheduler.StatusCanceled)) {
				never = false
			}
		}
		if never {
			return true
		}
	}
	return false
}

func anyRunning(ms []*mstage) bool {
	for _, m := range ms {
		if m.st == mRunning {
			return true
		}
	}
	return false
}

func needsCondDir(g *graphSpec) bool {
	for _, s := range g.Stages {
		if s.Cond || (s.Nested != nil && needsCondDir(s.Nested)) {
			return true
		}
	}
	return false
}

func keys(m map[string]*parked) []string {
	r := make([]string, 0, len(m))
	for k := range m {
		r = append(r, k)
	}
	sort.Strings(r)
	return r
}

// ---------------------------------------------------------------- enumeration

// dagsUpTo enumerates DAGs on n stages up to relabelling: every subset of the
// edges j->i with j<i (stage i depends on stage j).
func dagEdgeSets(n int) [][][2]int {
	var pairs [][2]int
	for i := 0; i < n; i++ {
		for j := 0; j < i; j++ {
			pairs = append(pairs, [2]int{j, i})
		}
	}
	var all [][][2]int
	for m := 0; m < 1<<uint(len(pairs)); m++ {
		var es [][2]int
		for k, p := range pairs {
			if m&(1<<uint(k)) != 0 {
				es = append(es, p)
			}
		}
		all = append(all, es)
	}
	return all
}

func mkSpec(n int, edges [][2]int, outcomes []int, order []int) *graphSpec {
	st := make([]stageSpec, n)
	for i := 0; i < n; i++ {
		st[i] = stageSpec{Name: fmt.Sprintf("s%d", i), Outcome: outcomes[i]}
	}
	for _, e := range edges {
		st[e[1]].Deps = append(st[e[1]].Deps, fmt.Sprintf("s%d", e[0]))
	}
	g := &graphSpec{}
	if order == nil {
		g.Stages = st
	} else {
		for _, i := range order {
			g.Stages = append(g.Stages, st[i])
		}
	}
	return g
}

type schedStats struct {
	mu        sync.Mutex
	final     map[string]string // config -> status vector + error flag (determinism across orders)
	confirmed int32
}

// graphs explored with subset branching (simultaneous completions of any group of tasks)
var subsetsFor = map[*graphSpec]bool{}
var subsetsMu sync.Mutex

func specKey(g *graphSpec) string { b, _ := json.Marshal(g); return string(b) }

// explore runs every completion order (DFS) or `orders` random orders of one configuration.
func explore(a args, st *schedStats, spec *graphSpec, exhaustiveOrders bool, orders int, rnd *h.Rand, burst bool) {
	key := specKey(spec)
	out.Count("configs", 1)
	var prefix []int
	count := 0
	for {
		if atomic.LoadInt32(&st.confirmed) >= 3 {
			return
		}
		subsetsMu.Lock()
		sub := subsetsFor[spec]
		subsetsMu.Unlock()
		strat := strategy{Choices: prefix, CancelAt: -1, AllAtOnce: exhaustiveOrders, Subsets: exhaustiveOrders && sub}
		if !exhaustiveOrders {
			strat.Random = int64(rnd.U64() | 1)
			strat.Burst = burst
		}
		res := runOne(a, st, spec, strat, key)
		count++
		if res.rejected {
			return
		}
		if exhaustiveOrders {
			// odometer: next prefix in DFS order
			p := append([]int(nil), res.taken...)
			i := len(p) - 1
			for i >= 0 && p[i]+1 >= res.options[i] {
				i--
			}
			if i < 0 {
				break
			}
			p[i]++
			prefix = p[:i+1]
		} else if count >= orders {
			break
		}
	}
}

func runOne(a args, st *schedStats, spec *graphSpec, strat strategy, key string) execResult {
	res := runExecution(spec, strat, a.Work)
	if res.rejected {
		out.Count("rejected_by_graph_builder", 1)
		return res
	}
	out.Count("executions", 1)
	if res.suspect != "" {
		// bounded-progress observation: re-confirm serially, three times
		parts := strings.SplitN(res.suspect, "|", 3)
		again := 0
		for i := 0; i < 3; i++ {
			strat2 := strat
			strat2.Choices = res.taken
			r2 := runExecution(spec, strat2, a.Work)
			if r2.suspect != "" {
				again++
			}
		}
		if again == 3 {
			out.Viol(parts[0], parts[1], parts[2], map[string]interface{}{"graph": spec, "strategy": strat, "taken": res.taken, "events": res.events})
			atomic.AddInt32(&st.confirmed, 1)
		} else {
			out.Inconclusive(parts[0], "watchdog fired once, not reproduced: "+parts[2])
		}
	}
	for _, v := range res.viols {
		out.Viol(v.prop, v.sig, v.what, map[string]interface{}{"graph": spec, "strategy": strategy{Choices: res.taken, CancelAt: strat.CancelAt, CancelKind: strat.CancelKind, Random: strat.Random, Burst: strat.Burst, AllAtOnce: strat.AllAtOnce, Subsets: strat.Subsets}, "events": res.events})
	}
	out.Count("events", int64(len(res.events)))
	out.Distinct("interleavings", key+"|"+strings.Join(res.events, " "))
	if res.suspect == "" && !res.cancelled {
		fin := fmt.Sprintf("%s err=%v", res.statusVec, res.errFlag)
		st.mu.Lock()
		prev, ok := st.final[key]
		if !ok {
			st.final[key] = fin
		}
		st.mu.Unlock()
		if ok && prev != fin {
			out.Viol("C02", "outcome-depends-on-completion-order", fmt.Sprintf("same graph and outcomes, different completion order: %q vs %q", prev, fin),
				map[string]interface{}{"graph": spec, "strategy": strategy{Choices: res.taken, CancelAt: -1, AllAtOnce: strat.AllAtOnce}, "events": res.events})
		}
	}
	// non-triviality per property
	edges, special := 0, 0
	for _, s := range spec.Stages {
		edges += len(s.Deps)
		if s.Outcome != oOK {
			special++
		}
	}
	ek := key + fmt.Sprint(res.taken, strat.CancelAt, strat.CancelKind)
	if edges > 0 {
		out.Nontrivial("C01", ek)
	}
	if special > 0 && len(spec.Stages) > 1 {
		out.Nontrivial("C02", ek)
	}
	if len(spec.Stages) > 1 {
		out.Nontrivial("C03", ek)
	}
	if res.bySilence > 0 {
		out.Count("quiescent_points_decided_by_silence", int64(res.bySilence))
	}
	if res.maxInFlight >= 2 {
		out.Nontrivial("C04", ek)
		out.Count("executions_with_overlap", 1)
	}
	if res.cancelled {
		out.Count("cancelled_executions", 1)
	}
	out.Sample("sched", map[string]interface{}{"graph": spec, "completion_choices": res.taken, "events": res.events, "final": res.statusVec, "error": res.errFlag})
	return res
}

func randomSpec(rnd *h.Rand, nmin, nmax int, nested bool) *graphSpec {
	n := rnd.Range(nmin, nmax)
	dens := rnd.Range(15, 60)
	var edges [][2]int
	for i := 0; i < n; i++ {
		for j := 0; j < i; j++ {
			if rnd.Chance(dens) {
				edges = append(edges, [2]int{j, i})
			}
		}
	}
	outc := make([]int, n)
	for i := range outc {
		switch x := rnd.Intn(10); {
		case x < 5:
			outc[i] = oOK
		case x < 7:
			outc[i] = oFail
		case x < 9:
			outc[i] = oFailAllow
		default:
			outc[i] = oCondFalse
		}
	}
	g := mkSpec(n, edges, outc, rnd.Perm(n))
	withConds := rnd.Chance(35)
	for i := range g.Stages {
		rnd2 := g.Stages[i].Deps
		rnd.Shuffle(rnd2)
		if withConds && g.Stages[i].Outcome != oCondFalse && rnd.Chance(50) {
			g.Stages[i].Cond = true // a condition that holds: evaluated (exec) on every pass while the stage waits
		}
	}
	if nested {
		k := rnd.Intn(n)
		inner := randomSpec(rnd, 1, 3, false)
		if rnd.Bool() {
			// half of the nested graphs use their own names, the other half the same stage names as the
			// including pipeline (names are only unique within one pipeline)
			for i := range inner.Stages {
				inner.Stages[i].Name = "i" + inner.Stages[i].Name[1:]
				for j := range inner.Stages[i].Deps {
					inner.Stages[i].Deps[j] = "i" + inner.Stages[i].Deps[j][1:]
				}
			}
		}
		g.Stages[k].Nested = inner
		if g.Stages[k].Outcome == oFail {
			g.Stages[k].Outcome = oOK // a nested stage fails iff its inner graph does
		}
		if n >= 2 && rnd.Chance(35) {
			// another stage of the same graph includes the very same pipeline
			j := (k + 1 + rnd.Intn(n-1)) % n
			g.Stages[j].SameAs = g.Stages[k].Name
			g.Stages[j].Nested = nil
			if g.Stages[j].Outcome == oFail {
				g.Stages[j].Outcome = oOK
			}
		} else if n >= 2 && rnd.Chance(40) {
			// another stage includes a pipeline of its own (two different inner pipelines may run side by side)
			j := (k + 1 + rnd.Intn(n-1)) % n
			other := randomSpec(rnd, 2, 3, false)
			for i := range other.Stages {
				other.Stages[i].Name = "j" + other.Stages[i].Name[1:]
				for d := range other.Stages[i].Deps {
					other.Stages[i].Deps[d] = "j" + other.Stages[i].Deps[d][1:]
				}
			}
			g.Stages[j].Nested = other
			if g.Stages[j].Outcome == oFail {
				g.Stages[j].Outcome = oOK
			}
		}
	}
	return g
}

// declaration orders in which the graph builder is known (C05) to work for
// every DAG: topological ones. Others are exercised too; a rejection is C05's
// business and only counted here.
func modeSched(a args) {
	st := &schedStats{final: map[string]string{}}
	type job func()
	var jobs []job
	idx := 0
	add := func(f job) {
		if a.mine(idx) {
			jobs = append(jobs, f)
		}
		idx++
	}
	maxN := 3
	if !a.quick() {
		maxN = 4
	}
	if v := a.Extra["maxn"]; v != "" {
		fmt.Sscan(v, &maxN)
	}
	light := a.Extra["light"] == "1"
	if light {
		maxN = 3
	}
	div := func(n int) int {
		if light {
			return n / 4
		}
		return n
	}
	// 1. exhaustive: every DAG (up to relabelling) x every outcome assignment x every completion order
	for n := 1; n <= maxN; n++ {
		for _, es := range dagEdgeSets(n) {
			nOut := 1
			for i := 0; i < n; i++ {
				nOut *= 4
			}
			for oc := 0; oc < nOut; oc++ {
				outc := make([]int, n)
				v := oc
				for i := 0; i < n; i++ {
					outc[i] = v % 4
					v /= 4
				}
				es, outc, n := es, outc, n
				add(func() { explore(a, st, mkSpec(n, es, outc, nil), true, 0, nil, false) })
				if len(es) >= 2 {
					// the same configuration declared bottom-up, depends_on lists reversed
					add(func() {
						g := mkSpec(n, es, outc, nil)
						for i, j := 0, len(g.Stages)-1; i < j; i, j = i+1, j-1 {
							g.Stages[i], g.Stages[j] = g.Stages[j], g.Stages[i]
						}
						for k := range g.Stages {
							d := g.Stages[k].Deps
							for i, j := 0, len(d)-1; i < j; i, j = i+1, j-1 {
								d[i], d[j] = d[j], d[i]
							}
						}
						explore(a, st, g, true, 0, nil, false)
					})
				}
			}
		}
	}
	// 2. seeded: n = 4 in quick (graph, outcomes, random orders), 5..8, nested, permuted declaration order
	rnd := h.NewRand(a.Seed, "sched-random")
	nr4 := div(a.n(600, 0))
	for i := 0; i < nr4; i++ {
		r := h.NewRand(int64(rnd.U64()), "n4")
		add(func() {
			sets := dagEdgeSets(4)
			es := sets[r.Intn(len(sets))]
			outc := []int{r.Intn(4), r.Intn(4), r.Intn(4), r.Intn(4)}
			explore(a, st, mkSpec(4, es, outc, r.Perm(4)), false, 4, r, false)
		})
	}
	nbig := div(a.n(150, 4000))
	for i := 0; i < nbig; i++ {
		r := h.NewRand(int64(rnd.U64()), "big")
		add(func() { explore(a, st, randomSpec(r, 5, 8, false), false, a.n(4, 15), r, r.Bool()) })
	}
	nnest := div(a.n(150, 3000))
	for i := 0; i < nnest; i++ {
		r := h.NewRand(int64(rnd.U64()), "nested")
		add(func() {
			g := randomSpec(r, 2, 4, true)
			if r.Bool() {
				explore(a, st, g, true, 0, nil, false)
			} else {
				explore(a, st, g, false, 6, r, true)
			}
		})
	}
	// 2b. fan-in with bystanders: k parents (any outcomes) -> child, next to an independent chain; every
	// non-empty subset of the tasks in flight may complete at the same instant
	nfan := div(a.n(40, 600))
	for i := 0; i < nfan; i++ {
		r := h.NewRand(int64(rnd.U64()), "fanin")
		add(func() {
			k := r.Range(2, 3)
			g := &graphSpec{}
			var parents []string
			for p := 0; p < k; p++ {
				nm := fmt.Sprintf("p%d", p)
				parents = append(parents, nm)
				g.Stages = append(g.Stages, stageSpec{Name: nm, Outcome: []int{oFail, oFail, oOK, oFailAllow}[r.Intn(4)]})
			}
			g.Stages = append(g.Stages, stageSpec{Name: "child", Deps: parents, Outcome: r.Intn(3)})
			g.Stages = append(g.Stages, stageSpec{Name: "x", Outcome: oOK}, stageSpec{Name: "y", Deps: []string{"x"}, Outcome: r.Intn(2)})
			if r.Bool() {
				g.Stages = append(g.Stages, stageSpec{Name: "z", Deps: []string{"y", "child"}[r.Intn(2):][:1], Outcome: oOK})
			}
			perm := r.Perm(len(g.Stages))
			shuffled := make([]stageSpec, len(g.Stages))
			for i, j := range perm {
				shuffled[i] = g.Stages[j]
			}
			g.Stages = shuffled
			subsetsMu.Lock()
			subsetsFor[g] = true
			subsetsMu.Unlock()
			explore(a, st, g, true, 0, nil, false)
			subsetsMu.Lock()
			delete(subsetsFor, g)
			subsetsMu.Unlock()
		})
	}
	// 2c. shapes that need many stage goroutines at once: pipelines nested 10 deep, and 12 stages that each include
	// a pipeline and run side by side (every one of them must get to run whatever else is in flight)
	for v := 0; v < 2; v++ {
		v := v
		r := h.NewRand(int64(rnd.U64()), "deepwide")
		add(func() {
			if v == 0 {
				leaf := &graphSpec{Stages: []stageSpec{{Name: "leaf", Outcome: oOK}, {Name: "leaf2", Deps: []string{"leaf"}, Outcome: oOK}}}
				cur := leaf
				for d := 0; d < 10; d++ {
					cur = &graphSpec{Stages: []stageSpec{{Name: fmt.Sprintf("n%d", d), Outcome: oOK, Nested: cur}}}
				}
				explore(a, st, cur, true, 0, nil, false)
				return
			}
			g := &graphSpec{}
			for i := 0; i < 12; i++ {
				g.Stages = append(g.Stages, stageSpec{Name: fmt.Sprintf("w%d", i), Outcome: oOK, Nested: &graphSpec{Stages: []stageSpec{{Name: "in", Outcome: oOK}}}})
			}
			g.Stages = append(g.Stages, stageSpec{Name: "last", Deps: []string{"w0", "w11"}, Outcome: oOK})
			explore(a, st, g, false, a.n(3, 12), r, true)
		})
	}
	// 2c'. a comb: chain s -> y -> w with a leaf behind every link; the three leaves are independent of each other and
	// may all be in flight together although they sit on different levels of the graph
	add(func() {
		g := &graphSpec{Stages: []stageSpec{
			{Name: "s", Outcome: oOK}, {Name: "y", Outcome: oOK, Deps: []string{"s"}}, {Name: "w", Outcome: oOK, Deps: []string{"y"}},
			{Name: "x1", Outcome: oOK, Deps: []string{"s"}}, {Name: "x2", Outcome: oOK, Deps: []string{"y"}}, {Name: "x3", Outcome: oOK, Deps: []string{"w"}},
		}}
		explore(a, st, g, true, 0, nil, false)
	})
	// 2d. one pipeline included by two stages, the second includer held back by a stage of its own, dependants
	// behind both includers; every outcome of the inner stages and of the includers, every completion order
	for _, chain := range []bool{false, true} {
		for _, xo := range []int{oOK, oFail, oFailAllow} {
			for _, bo := range []int{oOK, oFailAllow} {
				for _, ao := range []int{oOK, oFailAllow} {
					chain, xo, bo, ao := chain, xo, bo, ao
					add(func() {
						inner := &graphSpec{Stages: []stageSpec{{Name: "x", Outcome: xo}, {Name: "y", Outcome: oOK}}}
						if chain {
							inner.Stages[1].Deps = []string{"x"}
						}
						g := &graphSpec{Stages: []stageSpec{
							{Name: "a", Outcome: ao, Nested: inner},
							{Name: "d", Outcome: oOK},
							{Name: "b", Outcome: bo, Deps: []string{"d"}, SameAs: "a"},
							{Name: "t", Outcome: oOK, Deps: []string{"b"}},
							{Name: "u", Outcome: oOK, Deps: []string{"a"}},
						}}
						explore(a, st, g, true, 0, nil, false)
					})
				}
			}
		}
	}
	// 2e. two stages that include two DIFFERENT pipelines and run side by side: the one that began first may end first
	// or last - whichever ends, the stages of the other still wait for their own dependencies; every completion order
	for _, xo := range []int{oOK, oFailAllow} {
		for _, shape := range []int{0, 1, 2} {
			xo, shape := xo, shape
			add(func() {
				left := &graphSpec{Stages: []stageSpec{{Name: "l1", Outcome: xo}}}
				right := &graphSpec{Stages: []stageSpec{{Name: "r1", Outcome: oOK}, {Name: "r2", Outcome: oOK, Deps: []string{"r1"}}, {Name: "r3", Outcome: oOK, Deps: []string{"r2"}}}}
				if shape >= 1 {
					left.Stages = append(left.Stages, stageSpec{Name: "l2", Outcome: oOK, Deps: []string{"l1"}})
				}
				g := &graphSpec{Stages: []stageSpec{{Name: "a", Outcome: oOK, Nested: left}, {Name: "b", Outcome: oOK, Nested: right}}}
				if shape == 2 {
					g.Stages = append(g.Stages, stageSpec{Name: "c", Outcome: oOK, Nested: &graphSpec{Stages: []stageSpec{{Name: "m1", Outcome: oOK}, {Name: "m2", Outcome: oOK, Deps: []string{"m1"}}}}}, stageSpec{Name: "t", Outcome: oOK, Deps: []string{"a", "b"}})
				}
				explore(a, st, g, true, 0, nil, false)
			})
		}
	}
	// 3. cancelled runs (C03): Cancel / condition error at every explorer state of small DAGs
	ncancel := div(a.n(120, 2500))
	for i := 0; i < ncancel; i++ {
		r := h.NewRand(int64(rnd.U64()), "cancel")
		add(func() {
			g := randomSpec(r, 1, 4, r.Chance(35))
			kind := "caller"
			if r.Bool() {
				kind = "cond"
				// give every stage with dependencies a breakable condition
				any := false
				for i := range g.Stages {
					if len(g.Stages[i].Deps) > 0 && g.Stages[i].Outcome != oCondFalse && g.Stages[i].Nested == nil {
						g.Stages[i].Cond = true
						any = true
					}
					if in := g.Stages[i].Nested; in != nil {
						for j := range in.Stages {
							if len(in.Stages[j].Deps) > 0 && in.Stages[j].Outcome != oCondFalse {
								in.Stages[j].Cond = true
								any = true
							}
						}
					}
				}
				if !any {
					kind = "caller"
				}
			}
			key := specKey(g)
			for step := 0; step < 5; step++ {
				strat := strategy{Random: int64(r.U64() | 1), CancelAt: step, CancelKind: kind}
				res := runOne(a, st, g, strat, key)
				if res.rejected || !res.cancelled {
					break
				}
			}
		})
	}
	// 3b. exhaustive: every DAG on <=3 stages (all tasks succeed) x every completion order x every explorer
	// state along it x {caller Cancel, stage-condition error}
	if !light {
		for n := 1; n <= 3; n++ {
			for _, es := range dagEdgeSets(n) {
				es, n := es, n
				add(func() {
					outc := make([]int, n)
					for _, kind := range []string{"caller", "cond"} {
						g := mkSpec(n, es, outc, nil)
						if kind == "cond" {
							any := false
							for i := range g.Stages {
								if len(g.Stages[i].Deps) > 0 {
									g.Stages[i].Cond = true
									any = true
								}
							}
							if !any {
								continue
							}
						}
						key := specKey(g)
						// enumerate the complete orders first
						var paths [][]int
						var prefix []int
						for {
							res := runExecution(g, strategy{Choices: prefix, CancelAt: -1}, a.Work)
							if res.rejected || res.suspect != "" {
								break
							}
							paths = append(paths, res.taken)
							p := append([]int(nil), res.taken...)
							i := len(p) - 1
							for i >= 0 && p[i]+1 >= res.options[i] {
								i--
							}
							if i < 0 {
								break
							}
							p[i]++
							prefix = p[:i+1]
						}
						seen := map[string]bool{}
						for _, path := range paths {
							for step := 0; step <= len(path); step++ {
								k := fmt.Sprint(path[:step], step)
								if seen[k] {
									continue
								}
								seen[k] = true
								runOne(a, st, g, strategy{Choices: path[:step], CancelAt: step, CancelKind: kind}, key)
								out.Count("exhaustive_cancel_states", 1)
							}
						}
					}
				})
			}
		}
	}
	par := 8
	if a.Race {
		par = 4
	}
	h.Par(len(jobs), par, func(i int) {
		if atomic.LoadInt32(&st.confirmed) < 3 {
			jobs[i]()
		}
	})
}

func init() { modes["sched"] = modeSched }

// modeSchedReplay re-runs one recorded execution (graph + strategy) and prints the monitors' verdicts.
func modeSchedReplay(a args) {
	b, err := os.ReadFile(a.Extra["file"])
	if err != nil {
		panic(err)
	}
	var rp struct {
		Case struct {
			Graph    *graphSpec `json:"graph"`
			Strategy strategy   `json:"strategy"`
			Taken    []int      `json:"taken"`
		} `json:"case"`
	}
	if err := json.Unmarshal(b, &rp); err != nil || rp.Case.Graph == nil {
		fmt.Fprintln(os.Stderr, "not a scheduler replay file")
		os.Exit(2)
	}
	st := rp.Case.Strategy
	if len(rp.Case.Taken) > 0 {
		st.Choices = rp.Case.Taken
	}
	res := runExecution(rp.Case.Graph, st, a.Work)
	fmt.Fprintf(os.Stderr, "events: %v\nfinal: %s err=%v suspect=%q\n", res.events, res.statusVec, res.errFlag, res.suspect)
	for _, v := range res.viols {
		out.Viol(v.prop, v.sig, v.what, rp.Case)
	}
	if res.suspect != "" {
		p := strings.SplitN(res.suspect, "|", 3)
		out.Viol(p[0], p[1], p[2], rp.Case)
	}
	out.Count("executions", 1)
}

func init() { modes["schedreplay"] = modeSchedReplay }
