package main

// C05: cyclic <=> rejected; accepted graphs expose exactly the declared edges.

import (
	"fmt"
	"sort"
	"strings"

	"github.com/taskctl/taskctl/pkg/scheduler"
	"github.com/taskctl/taskctl/pkg/task"

	"verif/internal/h"
)

// hasCycle: Kahn's algorithm over the declared relation (deps[i] = stages i depends on).
func hasCycle(n int, deps [][]int) bool {
	indeg := make([]int, n)
	out := make([][]int, n)
	for i := 0; i < n; i++ {
		seen := map[int]bool{}
		for _, d := range deps[i] {
			if seen[d] {
				continue
			}
			seen[d] = true
			if d == i {
				return true
			}
			out[d] = append(out[d], i)
			indeg[i]++
		}
	}
	var q []int
	for i := 0; i < n; i++ {
		if indeg[i] == 0 {
			q = append(q, i)
		}
	}
	done := 0
	for len(q) > 0 {
		x := q[0]
		q = q[1:]
		done++
		for _, y := range out[x] {
			indeg[y]--
			if indeg[y] == 0 {
				q = append(q, y)
			}
		}
	}
	return done != n
}

type graphCase struct {
	Names  []string `json:"names,omitempty"` // stage names (default s0..); may contain ':'
	Nested int      `json:"nested"`          // index+1 of a stage that includes a pipeline with the same stage names, 0 = none
	N     int     `json:"n"`
	Deps  [][]int `json:"deps"`  // Deps[i] = indices stage i depends on, in list order (may contain duplicates)
	Order []int   `json:"order"` // declaration order
}

func checkGraphCase(gc graphCase, viaAddStage bool) {
	var stages []*scheduler.Stage
	nameOf := func(i int) string {
		if len(gc.Names) > i {
			return gc.Names[i]
		}
		return fmt.Sprintf("s%d", i)
	}
	for _, i := range gc.Order {
		st := &scheduler.Stage{Name: nameOf(i), Task: task.FromCommands("true")}
		for _, d := range gc.Deps[i] {
			st.DependsOn = append(st.DependsOn, nameOf(d))
		}
		if gc.Nested == i+1 {
			// this stage runs another pipeline: a populated, acyclic chain over the SAME stage names
			var inner []*scheduler.Stage
			for k := 0; k < gc.N; k++ {
				in := &scheduler.Stage{Name: nameOf(k), Task: task.FromCommands("true")}
				if k > 0 {
					in.DependsOn = []string{nameOf(k - 1)}
				}
				inner = append(inner, in)
			}
			ig, err := scheduler.NewExecutionGraph(inner...)
			if err != nil {
				out.Viol("C05", "acyclic-rejected", "a chain was rejected as cyclic", gc)
				return
			}
			st.Task, st.Pipeline = nil, ig
		}
		stages = append(stages, st)
	}
	var g *scheduler.ExecutionGraph
	var err error
	if viaAddStage {
		g, _ = scheduler.NewExecutionGraph()
		for _, st := range stages {
			if err = g.AddStage(st); err != nil {
				break
			}
		}
	} else {
		g, err = scheduler.NewExecutionGraph(stages...)
	}
	cyc := hasCycle(gc.N, gc.Deps)
	out.Count("cases", 1)
	if cyc {
		out.Count("cyclic", 1)
	} else {
		out.Count("acyclic", 1)
	}
	switch {
	case err != nil && err != scheduler.ErrCycleDetected:
		out.Viol("C05", "unexpected-error", fmt.Sprintf("graph build failed with %v", err), gc)
	case err != nil && !cyc:
		out.Viol("C05", "acyclic-rejected", "an acyclic depends_on relation was rejected as cyclic", gc)
	case err == nil && cyc:
		out.Viol("C05", "cyclic-accepted", "a cyclic depends_on relation was accepted", gc)
	case err == nil:
		for i := 0; i < gc.N; i++ {
			name := nameOf(i)
			want := map[string]bool{}
			for _, d := range gc.Deps[i] {
				want[nameOf(d)] = true
			}
			if got := setOf(g.To(name)); !sameSet(got, want) {
				out.Viol("C05", "edges-differ", fmt.Sprintf("To(%s)=%v, declared %v", name, keysOf(got), keysOf(want)), gc)
			}
			wantF := map[string]bool{}
			for j := 0; j < gc.N; j++ {
				for _, d := range gc.Deps[j] {
					if d == i {
						wantF[nameOf(j)] = true
					}
				}
			}
			if got := setOf(g.From(name)); !sameSet(got, wantF) {
				out.Viol("C05", "edges-differ", fmt.Sprintf("From(%s)=%v, declared %v", name, keysOf(got), keysOf(wantF)), gc)
			}
		}
		if len(g.Nodes()) != gc.N {
			out.Viol("C05", "nodes-differ", fmt.Sprintf("%d nodes for %d declared stages", len(g.Nodes()), gc.N), gc)
		}
	}
	edges := 0
	for _, d := range gc.Deps {
		edges += len(d)
	}
	if edges >= 2 {
		out.Nontrivial("C05", fmt.Sprint(gc))
	}
}

func setOf(xs []string) map[string]bool {
	m := map[string]bool{}
	for _, x := range xs {
		m[x] = true
	}
	return m
}
func sameSet(a, b map[string]bool) bool {
	if len(a) != len(b) {
		return false
	}
	for k := range a {
		if !b[k] {
			return false
		}
	}
	return true
}
func keysOf(m map[string]bool) []string {
	var r []string
	for k := range m {
		r = append(r, k)
	}
	sort.Strings(r)
	return r
}

func permutations(n int) [][]int {
	var res [][]int
	var rec func(cur []int, used []bool)
	rec = func(cur []int, used []bool) {
		if len(cur) == n {
			res = append(res, append([]int(nil), cur...))
			return
		}
		for i := 0; i < n; i++ {
			if !used[i] {
				used[i] = true
				rec(append(cur, i), used)
				used[i] = false
			}
		}
	}
	rec(nil, make([]bool, n))
	return res
}

func depsFromMask(n int, mask uint64) [][]int {
	deps := make([][]int, n)
	for i := 0; i < n; i++ {
		for j := 0; j < n; j++ {
			if mask&(1<<uint(i*n+j)) != 0 {
				deps[i] = append(deps[i], j)
			}
		}
	}
	return deps
}

func modeGraph(a args) {
	maxN := a.n(3, 4)
	idx := 0
	for n := 1; n <= maxN; n++ {
		perms := permutations(n)
		for mask := uint64(0); mask < 1<<uint(n*n); mask++ {
			if !a.mine(idx) {
				idx++
				continue
			}
			idx++
			deps := depsFromMask(n, mask)
			for pi, p := range perms {
				checkGraphCase(graphCase{N: n, Deps: deps, Order: p}, (pi+int(mask))%2 == 0)
			}
		}
	}
	rnd := h.NewRand(a.Seed, "graph", fmt.Sprint(a.Shard))
	// quick: a seeded sample of the 4-stage space; both tiers: random graphs on 5..10 stages
	if a.quick() {
		perms := permutations(4)
		for i := 0; i < 6000/maxInt(a.Shards, 1); i++ {
			mask := rnd.U64() & 0xffff
			gc := graphCase{N: 4, Deps: depsFromMask(4, mask), Order: perms[rnd.Intn(24)]}
			switch i % 3 {
			case 1:
				gc.Names = []string{"a", "a:b", "b:c", "c"} // ':' is the customary namespace separator in stage names
			case 2:
				gc.Nested = 1 + rnd.Intn(4)
			}
			checkGraphCase(gc, rnd.Bool())
		}
	}
	// every digraph on 3 stages x every order, once with an including stage at each position and once with ':' names
	perms3 := permutations(3)
	for mask := uint64(0); mask < 1<<9; mask++ {
		if !a.mine(int(mask)) {
			continue
		}
		for _, p := range perms3 {
			for nested := 1; nested <= 3; nested++ {
				checkGraphCase(graphCase{N: 3, Deps: depsFromMask(3, mask), Order: p, Nested: nested}, mask%2 == 0)
			}
			checkGraphCase(graphCase{N: 3, Deps: depsFromMask(3, mask), Order: p, Names: []string{"x", "x:y", "y"}}, mask%2 == 1)
		}
	}
	if !a.quick() {
		perms4 := permutations(4)
		for mask := uint64(0); mask < 1<<16; mask++ {
			if !a.mine(int(mask)) {
				continue
			}
			for _, p := range perms4 {
				checkGraphCase(graphCase{N: 4, Deps: depsFromMask(4, mask), Order: p, Names: []string{"a", "a:b", "b:c", "c"}}, false)
			}
		}
	}
	nr := a.n(20000, 400000) / maxInt(a.Shards, 1)
	for i := 0; i < nr; i++ {
		n := rnd.Range(5, 10)
		deps := make([][]int, n)
		acyclicBias := rnd.Chance(70)
		lab := rnd.Perm(n)
		dens := rnd.Range(5, 45)
		for x := 0; x < n; x++ {
			for y := 0; y < n; y++ {
				if acyclicBias && lab[y] >= lab[x] {
					continue // edges only from lower to higher label: acyclic by construction
				}
				if rnd.Chance(dens) {
					deps[x] = append(deps[x], y)
				}
			}
			if len(deps[x]) > 0 && rnd.Chance(10) {
				deps[x] = append(deps[x], deps[x][rnd.Intn(len(deps[x]))]) // duplicate entry
			}
			// shuffle the list
			for k := len(deps[x]) - 1; k > 0; k-- {
				j := rnd.Intn(k + 1)
				deps[x][k], deps[x][j] = deps[x][j], deps[x][k]
			}
		}
		if acyclicBias && rnd.Chance(15) && n > 1 { // plant one back edge / self loop
			x := rnd.Intn(n)
			deps[x] = append(deps[x], rnd.Intn(n))
		}
		checkGraphCase(graphCase{N: n, Deps: deps, Order: rnd.Perm(n)}, rnd.Bool())
	}
	out.Sample("C05", graphCase{N: 4, Deps: [][]int{{}, {0}, {0, 1}, {1, 2}}, Order: []int{3, 2, 1, 0}})
	_ = strings.Join
}

func maxInt(a, b int) int {
	if a > b {
		return a
	}
	return b
}

func init() { modes["graph"] = modeGraph }
