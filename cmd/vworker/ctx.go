package main

// C14 (in-process part): execution-context hooks — counts and order.

import (
	"fmt"
	"os"
	"path/filepath"
	"strings"
	"sync"
	"time"

	"github.com/taskctl/taskctl/pkg/runner"
	"github.com/taskctl/taskctl/pkg/scheduler"
	"github.com/taskctl/taskctl/pkg/task"
	"github.com/taskctl/taskctl/pkg/utils"
	"github.com/taskctl/taskctl/pkg/variables"

	"verif/internal/h"
	"verif/internal/oracle"
)

func runCtxCase(a args, idx int, r *h.Rand) {
	dir := filepath.Join(a.Work, fmt.Sprintf("ctx.%d", idx))
	os.MkdirAll(dir, 0o755)
	defer os.RemoveAll(dir)
	trace := dir + "/trace"
	tok := func(s string) string { return fmt.Sprintf("printf '%s\\n' >> '%s'", s, trace) }
	nctx := r.Range(1, 3)
	ntask := r.Range(1, 8)
	how := []string{"sequential", "simultaneous", "scheduler"}[r.Intn(3)]
	info := oracle.CtxInfo{UpFails: map[string]bool{}, Tasks: map[string]oracle.CtxTask{}, Sequential: how == "sequential"}
	ctxs := map[string]*runner.ExecutionContext{}
	for i := 0; i < nctx+1; i++ { // one extra context stays unused
		cx := fmt.Sprintf("c%d", i)
		info.Contexts = append(info.Contexts, cx)
		upFails := i < nctx && r.Chance(15)
		slow := ""
		if r.Chance(50) {
			slow = "sleep 0.05; "
		}
		up := tok(cx+"|up|S") + "; " + slow + tok(cx+"|up|E")
		if upFails {
			up = tok(cx+"|up|S") + "; " + slow + "exit 1"
			info.UpFails[cx] = true
		}
		ups := []string{up}
		if upFails && r.Chance(50) {
			// `up` fails without any exit status: a command that cannot be rendered / parsed
			ups = []string{tok(cx + "|up|S"), []string{"echo {{ .NoSuchVariableAnywhere }}", "if then fi ((", "echo \"unterminated"}[r.Intn(3)]}
		}
		if r.Chance(40) {
			// a second up command that succeeds: a failure of the first one must not be forgotten
			ups = append(ups, tok(cx+"|up2"))
		}
		if !upFails && r.Chance(20) {
			// a context that has nothing to bring up is still shut down
			ups = nil
			if info.NoUp == nil {
				info.NoUp = map[string]bool{}
			}
			info.NoUp[cx] = true
		}
		down := tok(cx + "|down")
		if r.Chance(30) {
			down += "; exit 1" // a failing shutdown hook of one context says nothing about the others
		}
		ctxs[cx] = runner.NewExecutionContext(&utils.Binary{}, "", variables.NewVariables(), ups, []string{down}, []string{tok(cx + "|cb")}, []string{tok(cx + "|ca")})
	}
	var tasks []*task.Task
	for i := 0; i < ntask; i++ {
		cx := fmt.Sprintf("c%d", r.Intn(nctx))
		name := fmt.Sprintf("t%d", i)
		t := task.NewTask()
		t.Name = name
		t.Context = cx
		tk := oracle.CtxTask{Ctx: cx, Ran: true}
		ncmd := r.Range(1, 2)
		fail := r.Chance(25)
		for k := 0; k < ncmd; k++ {
			cmd := tok(fmt.Sprintf("%s|T|%s:c%d", cx, name, k))
			if r.Chance(30) {
				cmd += "; sleep 0.00" + fmt.Sprint(r.Intn(9))
			}
			if fail && k == ncmd-1 {
				cmd += "; exit 2"
			}
			t.Commands = append(t.Commands, cmd)
		}
		tk.Failed = fail
		if !fail && r.Chance(30) {
			// a task that would tolerate failing commands: a context that could not be brought up is no such failure
			t.AllowFailure = true
		}
		if !fail && r.Chance(20) {
			// a task timeout that each command respects while the whole task takes longer: hooks are not commands of the task
			to := 250 * time.Millisecond
			t.Timeout = &to
			t.Commands = append(t.Commands, "sleep 0.15", "sleep 0.15")
		}
		if r.Chance(30) {
			t.Before = []string{tok(fmt.Sprintf("%s|T|%s:tb", cx, name))}
		}
		if r.Chance(30) {
			t.After = []string{tok(fmt.Sprintf("%s|T|%s:ta", cx, name))}
		}
		switch r.Intn(6) {
		case 0:
			t.Condition = tok(fmt.Sprintf("%s|T|%s:cond", cx, name))
		case 1:
			t.Condition = "exit 1" // skipped, leaves no token
			tk.Skipped = true
		}
		info.Tasks[name] = tk
		tasks = append(tasks, t)
	}
	cancelBeforeFinish := r.Chance(25)
	cancelMid := how == "simultaneous" && r.Chance(35)
	out.Begin(fmt.Sprintf("ctx#%d %s cancel_before_finish=%v", idx, how, cancelBeforeFinish))
	tr := newQuietRunner()
	tr.SetContexts(ctxs)
	res := map[string]error{}
	var rmu sync.Mutex
	switch how {
	case "sequential":
		for _, t := range tasks {
			res[t.Name] = tr.Run(t)
		}
	case "simultaneous":
		var wg sync.WaitGroup
		gate := make(chan struct{})
		if cancelMid {
			// every task stays in flight for a while; the runner is cancelled in the middle
			for _, t := range tasks {
				t.Commands = append(t.Commands, "sh -c 'exec sleep 0.3'")
				t.Condition = ""
				tk := info.Tasks[t.Name]
				tk.Skipped = false
				info.Tasks[t.Name] = tk
			}
			info.CancelledMid = true
			go func() {
				<-gate
				time.Sleep(time.Duration(20+r.Intn(150)) * time.Millisecond)
				tr.Cancel()
			}()
		}
		for _, t := range tasks {
			wg.Add(1)
			go func(t *task.Task) {
				defer wg.Done()
				<-gate
				err := tr.Run(t)
				rmu.Lock()
				res[t.Name] = err
				rmu.Unlock()
			}(t)
		}
		close(gate)
		wg.Wait()
	case "scheduler":
		var st []*scheduler.Stage
		for _, t := range tasks {
			st = append(st, &scheduler.Stage{Name: t.Name, Task: t, AllowFailure: true})
		}
		if len(st) >= 3 && r.Chance(50) {
			// the first k stages become an included pipeline; the remaining stages depend on it,
			// so tasks of the same contexts run after the nested pipeline has finished
			k := r.Range(1, len(st)-1)
			inner, err := scheduler.NewExecutionGraph(st[:k]...)
			if err != nil {
				panic(err)
			}
			outer := []*scheduler.Stage{{Name: "included", Pipeline: inner, AllowFailure: true}}
			for _, s := range st[k:] {
				s.DependsOn = []string{"included"}
				outer = append(outer, s)
			}
			st = outer
			how = "scheduler+nested"
		}
		g, err := scheduler.NewExecutionGraph(st...)
		if err != nil {
			panic(err)
		}
		stageOf := map[string]*scheduler.Stage{}
		var collect func(g *scheduler.ExecutionGraph)
		collect = func(g *scheduler.ExecutionGraph) {
			for n, s := range g.Nodes() {
				if s.Pipeline != nil {
					collect(s.Pipeline)
				} else {
					stageOf[n] = s
				}
			}
		}
		collect(g)
		sch := scheduler.NewScheduler(tr)
		sch.VerifSetPause(300 * time.Microsecond)
		sch.Schedule(g)
		for _, t := range tasks {
			s := stageOf[t.Name]
			if s.ReadStatus() == scheduler.StatusError || s.Task.Errored {
				res[t.Name] = fmt.Errorf("failed")
			}
			// a stage whose task could not even start (up failed) ends in Error with AllowFailure -> Done; use the task
			if s.Task.Error != nil {
				res[t.Name] = s.Task.Error
			}
		}
	}
	if cancelBeforeFinish {
		// the runner is cancelled after the tasks are done (nothing in flight): contexts that were used are
		// still shut down at Finish
		tr.Cancel()
	}
	lockedFinish(tr.Finish)
	for name, tk := range info.Tasks {
		tk.RetOK = res[name] == nil
		if strings.HasPrefix(how, "scheduler") && info.UpFails[tk.Ctx] {
			tk.RetOK = false // the stage's own error is not visible through Task fields when Run failed before starting; checked via tokens only
		}
		info.Tasks[name] = tk
	}
	toks := strings.Fields(h.ReadFile(trace))
	out.Count("cases", 1)
	out.Count("events", int64(len(toks)))
	cas := map[string]interface{}{"how": how, "info": info, "trace": toks}
	for _, f := range oracle.CheckCtxTrace(toks, info) {
		out.Viol("C14", f.Sig, f.What+" ["+how+"]", cas)
	}
	out.Distinct("interleavings", strings.Join(toks, " "))
	if ntask >= 2 {
		out.Nontrivial("C14", fmt.Sprint(how, info))
	}
	out.Sample("C14", cas)
}

func modeCtx(a args) {
	rnd := h.NewRand(a.Seed, "ctx")
	n := a.n(300, 6000)
	if a.Race {
		n = a.n(100, 1200)
	}
	var jobs []func()
	for i := 0; i < n; i++ {
		r := h.NewRand(int64(rnd.U64()), "c14")
		i := i
		if a.mine(i) {
			jobs = append(jobs, func() { runCtxCase(a, i, r) })
		}
	}
	h.Par(len(jobs), 4, func(i int) { jobs[i]() })
}

func init() { modes["ctx"] = modeCtx }
