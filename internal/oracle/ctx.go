// Package oracle holds trace checkers shared by vworker (in-process
// workloads) and vcheck (process-boundary workloads).
package oracle

import (
	"fmt"
	"strings"
)

// CtxTask describes one task execution of a C14 workload.
type CtxTask struct {
	Ctx     string `json:"ctx"`
	Skipped bool   `json:"skipped"` // condition false
	Failed  bool   `json:"failed"`  // returned an error
	RetOK   bool   `json:"ret_ok"`  // Run returned nil
	Ran     bool   `json:"ran"`     // the harness called Run for it
}

type CtxInfo struct {
	UpFails    map[string]bool    `json:"up_fails"`
	Tasks      map[string]CtxTask `json:"tasks"`
	Sequential bool               `json:"sequential"`
	Contexts   []string           `json:"contexts"`
	NoDownOK   bool               `json:"-"`
	NoUp       map[string]bool    `json:"no_up,omitempty"` // contexts declared without `up` commands
	// CancelledMid: the runner was cancelled while tasks were in flight. Which tasks got as far as their
	// context `before` is then a matter of timing; what remains decided: every `before` is matched by an
	// `after`, `up` ran once and first, `down` once and last.
	CancelledMid bool `json:"cancelled_mid"`
}

type Finding struct{ Sig, What string }

// CheckCtxTrace checks the hook grammar of C14 on an ordered token trace.
// Tokens: "<ctx>|up|S", "<ctx>|up|E", "<ctx>|cb", "<ctx>|ca", "<ctx>|down", "<ctx>|T|<task>:<what>".
func CheckCtxTrace(toks []string, info CtxInfo) []Finding {
	var fs []Finding
	add := func(sig, f string, a ...interface{}) { fs = append(fs, Finding{sig, fmt.Sprintf(f, a...)}) }
	for _, cx := range info.Contexts {
		var seq []string // tokens of this context, in order
		for _, t := range toks {
			if strings.HasPrefix(t, cx+"|") {
				seq = append(seq, t[len(cx)+1:])
			}
		}
		used := false
		nexec := 0
		for _, tk := range info.Tasks {
			if tk.Ctx == cx && tk.Ran {
				used = true
				if !tk.Skipped {
					nexec++
				}
			}
		}
		count := func(s string) int {
			n := 0
			for _, x := range seq {
				if x == s {
					n++
				}
			}
			return n
		}
		if !used {
			if len(seq) > 0 {
				add("hook-of-unused-context", "context %s was never used but its hooks ran: %v", cx, seq)
			}
			continue
		}
		if n := count("up|S"); n != 1 && !info.NoUp[cx] {
			add("up-count", "context %s: `up` ran %d times (expected exactly once)", cx, n)
		}
		// nothing of this context before up finished
		for i, x := range seq {
			if info.NoUp[cx] {
				break
			}
			if x == "up|E" {
				break
			}
			if x == "up2" && info.UpFails[cx] {
				continue // a later up command after a failed one: not determined
			}
			if x != "up|S" {
				if info.UpFails[cx] && count("up|E") == 0 {
					break // a failing up has no end token; handled below
				}
				add("hook-or-command-before-up-finished", "context %s: %q (position %d) appears before `up` finished", cx, x, i)
				break
			}
		}
		if info.UpFails[cx] {
			for _, x := range seq {
				if strings.HasPrefix(x, "T|") {
					add("command-ran-after-failed-up", "context %s: `up` failed but task token %q appears", cx, x)
					break
				}
			}
			for name, tk := range info.Tasks {
				if tk.Ctx == cx && tk.Ran && tk.RetOK {
					add("task-succeeded-after-failed-up", "context %s: `up` failed but task %s reported success", cx, name)
				}
			}
			continue // whether down runs after a failed up is not determined
		}
		// before / after per execution
		type span struct{ first, last int }
		spans := map[string]*span{}
		var order []string
		for i, x := range seq {
			if strings.HasPrefix(x, "T|") {
				name := x[2:]
				if j := strings.IndexByte(name, ':'); j >= 0 {
					name = name[:j]
				}
				if spans[name] == nil {
					spans[name] = &span{i, i}
					order = append(order, name)
				}
				spans[name].last = i
			}
		}
		nskip := 0
		for _, tk := range info.Tasks {
			if tk.Ctx == cx && tk.Ran && tk.Skipped {
				nskip++
			}
		}
		ncb, nca := count("cb"), count("ca")
		if info.CancelledMid {
			if ncb != nca {
				add("context-after-missing/cancelled-run", "context %s: `before` ran %d times but `after` %d times in a run that was cancelled while tasks were in flight: %v", cx, ncb, nca, seq)
			}
			nd := count("down")
			if nd != 1 {
				add("down-count/cancelled-run", "context %s was used, the run was cancelled, `down` ran %d times at shutdown (expected once)", cx, nd)
			} else if seq[len(seq)-1] != "down" {
				add("token-after-down", "context %s: tokens after `down`: %v", cx, seq)
			}
			continue
		}
		if ncb != nca {
			add("context-before-after-unbalanced", "context %s: `before` ran %d times, `after` %d times (every execution that got its `before` gets its `after`): %v", cx, ncb, nca, seq)
		}
		if ncb < nexec || ncb > nexec+nskip {
			add("context-before-count", "context %s: `before` ran %d times for %d task executions (+%d skipped)", cx, ncb, nexec, nskip)
		}
		if nca < nexec || nca > nexec+nskip {
			add("context-after-count", "context %s: `after` ran %d times for %d task executions (+%d skipped)", cx, nca, nexec, nskip)
		}
		// Hall condition: the k-th execution to start needs k `before` tokens in front of its first token,
		// the k-th from the end needs k `after` tokens behind its last token
		for k, name := range order {
			n := 0
			for _, x := range seq[:spans[name].first] {
				if x == "cb" {
					n++
				}
			}
			if n < k+1 {
				add("context-before-missing", "context %s: task %s is the %d. execution to start but only %d `before` hooks ran before it", cx, name, k+1, n)
				break
			}
		}
		// sort by last token descending
		for k := 0; k < len(order); k++ {
			// find the execution with the k-th greatest last index
			idx := make([]string, len(order))
			copy(idx, order)
			for a := 0; a < len(idx); a++ {
				for b := a + 1; b < len(idx); b++ {
					if spans[idx[b]].last > spans[idx[a]].last {
						idx[a], idx[b] = idx[b], idx[a]
					}
				}
			}
			name := idx[k]
			n := 0
			for _, x := range seq[spans[name].last+1:] {
				if x == "ca" {
					n++
				}
			}
			if n < k+1 {
				add("context-after-missing", "context %s: task %s is the %d. execution from the end but only %d `after` hooks ran after it", cx, name, k+1, n)
				break
			}
		}
		if info.Sequential && nskip == 0 {
			// exact bracket grammar: up (cb T+ ca)* down
			state := "idle"
			for i, x := range seq {
				switch {
				case x == "up|S" || x == "up|E" || x == "up2" || x == "down":
				case x == "cb":
					if state != "idle" {
						add("context-before-order", "context %s: `before` at position %d while a task execution is open: %v", cx, i, seq)
					}
					state = "open"
				case x == "ca":
					if state != "task" {
						add("context-after-order", "context %s: `after` at position %d without a task execution in front: %v", cx, i, seq)
					}
					state = "idle"
				case strings.HasPrefix(x, "T|"):
					if state == "idle" {
						add("context-before-missing", "context %s: task token %q at position %d not preceded by `before`: %v", cx, x, i, seq)
					}
					state = "task"
				}
			}
		}
		// down: exactly once, last
		nd := count("down")
		if nd != 1 {
			add("down-count", "context %s was used but `down` ran %d times (expected exactly once at shutdown)", cx, nd)
		} else if seq[len(seq)-1] != "down" {
			add("token-after-down", "context %s: tokens after `down`: %v", cx, seq)
		}
	}
	return fs
}
