// Package gen: abstract configuration values and emitters for YAML, JSON and
// TOML written here (not the libraries taskctl decodes with).
package gen

import (
	"fmt"
	"sort"
	"strconv"
	"strings"
	"unicode/utf16"
)

// KV / OM: an ordered map, so that generated files are deterministic and
// declaration order (stage lists are lists anyway) is under the generator's control.
type KV struct {
	K string
	V interface{}
}
type OM []KV

func (m *OM) Set(k string, v interface{}) {
	for i := range *m {
		if (*m)[i].K == k {
			(*m)[i].V = v
			return
		}
	}
	*m = append(*m, KV{k, v})
}
func (m OM) Get(k string) (interface{}, bool) {
	for _, kv := range m {
		if kv.K == k {
			return kv.V, true
		}
	}
	return nil, false
}
func (m *OM) Del(k string) {
	for i := range *m {
		if (*m)[i].K == k {
			*m = append((*m)[:i], (*m)[i+1:]...)
			return
		}
	}
}

// FromStrMap builds an OM with sorted keys.
func FromStrMap(m map[string]string) OM {
	ks := make([]string, 0, len(m))
	for k := range m {
		ks = append(ks, k)
	}
	sort.Strings(ks)
	var o OM
	for _, k := range ks {
		o = append(o, KV{k, m[k]})
	}
	return o
}

// Raw is emitted verbatim as a scalar (used for unquoted numbers / durations / malformed shapes).
type Raw string

func quote(s string) string {
	var b strings.Builder
	b.WriteByte('"')
	for _, r := range s {
		switch {
		case r == '"':
			b.WriteString(`\"`)
		case r == '\\':
			b.WriteString(`\\`)
		case r == '\n':
			b.WriteString(`\n`)
		case r == '\t':
			b.WriteString(`\t`)
		case r == '\r':
			b.WriteString(`\r`)
		case r < 0x20 || r == 0x7f:
			fmt.Fprintf(&b, `\u%04x`, r)
		default:
			b.WriteRune(r)
		}
	}
	b.WriteByte('"')
	return b.String()
}

func scalar(v interface{}) (string, bool) {
	switch x := v.(type) {
	case nil:
		return "null", true
	case string:
		return quote(x), true
	case Raw:
		return string(x), true
	case bool:
		return strconv.FormatBool(x), true
	case int:
		return strconv.Itoa(x), true
	case int64:
		return strconv.FormatInt(x, 10), true
	case float64:
		return strconv.FormatFloat(x, 'g', -1, 64), true
	}
	return "", false
}

func norm(v interface{}) interface{} {
	switch x := v.(type) {
	case []string:
		r := make([]interface{}, len(x))
		for i := range x {
			r[i] = x[i]
		}
		return r
	case map[string]string:
		return FromStrMap(x)
	case []OM:
		r := make([]interface{}, len(x))
		for i := range x {
			r[i] = x[i]
		}
		return r
	}
	return v
}

// ---------------------------------------------------------------- JSON

func JSON(v interface{}) string {
	var b strings.Builder
	jsonTo(&b, v, 0)
	b.WriteByte('\n')
	return b.String()
}
func jsonTo(b *strings.Builder, v interface{}, ind int) {
	v = norm(v)
	if s, ok := scalar(v); ok {
		b.WriteString(s)
		return
	}
	pad := strings.Repeat(" ", ind+1)
	switch x := v.(type) {
	case OM:
		if len(x) == 0 {
			b.WriteString("{}")
			return
		}
		b.WriteString("{\n")
		for i, kv := range x {
			b.WriteString(pad + quote(kv.K) + ": ")
			jsonTo(b, kv.V, ind+1)
			if i < len(x)-1 {
				b.WriteByte(',')
			}
			b.WriteByte('\n')
		}
		b.WriteString(strings.Repeat(" ", ind) + "}")
	case []interface{}:
		if len(x) == 0 {
			b.WriteString("[]")
			return
		}
		b.WriteString("[\n")
		for i, e := range x {
			b.WriteString(pad)
			jsonTo(b, e, ind+1)
			if i < len(x)-1 {
				b.WriteByte(',')
			}
			b.WriteByte('\n')
		}
		b.WriteString(strings.Repeat(" ", ind) + "]")
	default:
		panic(fmt.Sprintf("gen.JSON: unsupported %T", v))
	}
}

// ---------------------------------------------------------------- YAML

// YAML emits block style; flow=true emits nested collections below depth 2 in flow style.
func YAML(v interface{}) string     { return yamlDoc(v, false) }
func YAMLFlow(v interface{}) string { return yamlDoc(v, true) }

func yamlDoc(v interface{}, flow bool) string {
	var b strings.Builder
	yamlTo(&b, norm(v), 0, flow, 0)
	return b.String()
}

func yamlFlow(v interface{}) string {
	v = norm(v)
	if s, ok := scalar(v); ok {
		return s
	}
	switch x := v.(type) {
	case OM:
		var parts []string
		for _, kv := range x {
			parts = append(parts, quote(kv.K)+": "+yamlFlow(kv.V))
		}
		return "{" + strings.Join(parts, ", ") + "}"
	case []interface{}:
		var parts []string
		for _, e := range x {
			parts = append(parts, yamlFlow(e))
		}
		return "[" + strings.Join(parts, ", ") + "]"
	}
	panic(fmt.Sprintf("gen.YAML: unsupported %T", v))
}

func yamlTo(b *strings.Builder, v interface{}, ind int, flow bool, depth int) {
	pad := strings.Repeat("  ", ind)
	switch x := v.(type) {
	case OM:
		if len(x) == 0 {
			b.WriteString(pad + "{}\n")
			return
		}
		for _, kv := range x {
			val := norm(kv.V)
			if s, ok := scalar(val); ok {
				b.WriteString(pad + quote(kv.K) + ": " + s + "\n")
				continue
			}
			if (flow && depth >= 2) || isEmptyColl(val) {
				b.WriteString(pad + quote(kv.K) + ": " + yamlFlow(val) + "\n")
				continue
			}
			b.WriteString(pad + quote(kv.K) + ":\n")
			yamlTo(b, val, ind+1, flow, depth+1)
		}
	case []interface{}:
		if len(x) == 0 {
			b.WriteString(pad + "[]\n")
			return
		}
		for _, e := range x {
			e = norm(e)
			if s, ok := scalar(e); ok {
				b.WriteString(pad + "- " + s + "\n")
				continue
			}
			if (flow && depth >= 2) || isEmptyColl(e) {
				b.WriteString(pad + "- " + yamlFlow(e) + "\n")
				continue
			}
			// block collection inside a sequence entry: "-" then the nested block, indented
			var sub strings.Builder
			yamlTo(&sub, e, ind+1, flow, depth+1)
			lines := sub.String()
			// replace the first indentation by "- "
			first := strings.Repeat("  ", ind+1)
			if strings.HasPrefix(lines, first) {
				lines = pad + "- " + lines[len(first):]
			}
			b.WriteString(lines)
		}
	default:
		s, ok := scalar(v)
		if !ok {
			panic(fmt.Sprintf("gen.YAML: unsupported %T", v))
		}
		b.WriteString(pad + s + "\n")
	}
}

func isEmptyColl(v interface{}) bool {
	switch x := v.(type) {
	case OM:
		return len(x) == 0
	case []interface{}:
		return len(x) == 0
	}
	return false
}

// ---------------------------------------------------------------- TOML

// TOML emits a document for a top-level OM. inline=true writes leaf maps
// (maps of scalars) as inline tables.
func TOML(v OM, inline bool) string {
	var b strings.Builder
	tomlTable(&b, v, nil, inline)
	return b.String()
}

func tomlKey(path []string) string {
	q := make([]string, len(path))
	for i, p := range path {
		q[i] = quote(p)
	}
	return strings.Join(q, ".")
}

func tomlInline(v interface{}) (string, bool) {
	v = norm(v)
	if s, ok := scalar(v); ok {
		if v == nil {
			return "", false
		}
		return s, true
	}
	switch x := v.(type) {
	case []interface{}:
		var parts []string
		for _, e := range x {
			s, ok := tomlInline(e)
			if !ok {
				return "", false
			}
			if _, isMap := norm(e).(OM); isMap {
				return "", false
			}
			parts = append(parts, s)
		}
		return "[" + strings.Join(parts, ", ") + "]", true
	case OM:
		var parts []string
		for _, kv := range x {
			s, ok := tomlInline(kv.V)
			if !ok {
				return "", false
			}
			parts = append(parts, quote(kv.K)+" = "+s)
		}
		return "{" + strings.Join(parts, ", ") + "}", true
	}
	return "", false
}

func leafMap(v interface{}) bool {
	m, ok := norm(v).(OM)
	if !ok {
		return false
	}
	for _, kv := range m {
		if _, ok := scalar(norm(kv.V)); !ok {
			return false
		}
	}
	return true
}

func tomlTable(b *strings.Builder, t OM, path []string, inline bool) {
	// 1. simple values
	var tables, arrays []KV
	for _, kv := range t {
		val := norm(kv.V)
		switch x := val.(type) {
		case OM:
			if inline && leafMap(x) && len(x) > 0 {
				s, _ := tomlInline(x)
				b.WriteString(quote(kv.K) + " = " + s + "\n")
			} else {
				tables = append(tables, KV{kv.K, x})
			}
		case []interface{}:
			allMaps := len(x) > 0
			for _, e := range x {
				if _, ok := norm(e).(OM); !ok {
					allMaps = false
				}
			}
			if allMaps {
				arrays = append(arrays, KV{kv.K, x})
			} else {
				s, ok := tomlInline(x)
				if !ok {
					panic("gen.TOML: heterogeneous array")
				}
				b.WriteString(quote(kv.K) + " = " + s + "\n")
			}
		default:
			if val == nil {
				continue // TOML has no null
			}
			s, _ := scalar(val)
			b.WriteString(quote(kv.K) + " = " + s + "\n")
		}
	}
	for _, kv := range tables {
		p := append(append([]string(nil), path...), kv.K)
		b.WriteString("\n[" + tomlKey(p) + "]\n")
		tomlTable(b, kv.V.(OM), p, inline)
	}
	for _, kv := range arrays {
		p := append(append([]string(nil), path...), kv.K)
		for _, e := range kv.V.([]interface{}) {
			b.WriteString("\n[[" + tomlKey(p) + "]]\n")
			tomlTable(b, norm(e).(OM), p, inline)
		}
	}
}

// JSONASCII rewrites a JSON text the way writers with "ensure_ascii" / "escape slashes" spell it: every `/` as `\/`,
// every character outside ASCII as \uXXXX, those beyond the BMP as a UTF-16 surrogate pair. Outside string literals a
// JSON text has neither, so the text can be rewritten as a whole.
func JSONASCII(js string) string {
	var b strings.Builder
	for _, r := range js {
		switch {
		case r == '/':
			b.WriteString(`\/`)
		case r < 0x80:
			b.WriteRune(r)
		case r >= 0x10000:
			r1, r2 := utf16.EncodeRune(r)
			fmt.Fprintf(&b, `\u%04x\u%04x`, r1, r2)
		default:
			fmt.Fprintf(&b, `\u%04x`, r)
		}
	}
	return b.String()
}
