// Package h holds what every check shares: deterministic PRNG, verdict
// bookkeeping (violated / held / inconclusive), known-findings handling,
// evidence files, child-process running with a watchdog, a parallel map.
package h

import (
	"bytes"
	"crypto/sha1"
	"encoding/hex"
	"encoding/json"
	"fmt"
	"os"
	"os/exec"
	"path/filepath"
	"sort"
	"strconv"
	"strings"
	"sync"
	"syscall"
	"time"
)

// ---------------------------------------------------------------- PRNG

// Rand is a splitmix64 generator: small, deterministic, independent of the Go
// version's math/rand stream.
type Rand struct{ s uint64 }

func NewRand(seed int64, salt ...string) *Rand {
	s := uint64(seed)*0x9E3779B97F4A7C15 + 0x1234567
	for _, x := range salt {
		for _, b := range []byte(x) {
			s = (s ^ uint64(b)) * 0x100000001b3
		}
		s ^= 0xabcdef
	}
	r := &Rand{s: s}
	r.U64()
	return r
}
func (r *Rand) U64() uint64 {
	r.s += 0x9E3779B97F4A7C15
	z := r.s
	z = (z ^ (z >> 30)) * 0xBF58476D1CE4E5B9
	z = (z ^ (z >> 27)) * 0x94D049BB133111EB
	return z ^ (z >> 31)
}
func (r *Rand) Intn(n int) int {
	if n <= 0 {
		return 0
	}
	return int(r.U64() % uint64(n))
}
func (r *Rand) Bool() bool        { return r.U64()&1 == 1 }
func (r *Rand) Chance(p int) bool { return r.Intn(100) < p } // p percent
func (r *Rand) Range(lo, hi int) int {
	if hi <= lo {
		return lo
	}
	return lo + r.Intn(hi-lo+1)
}
func (r *Rand) Pick(xs []string) string { return xs[r.Intn(len(xs))] }
func (r *Rand) Perm(n int) []int {
	p := make([]int, n)
	for i := range p {
		p[i] = i
	}
	for i := n - 1; i > 0; i-- {
		j := r.Intn(i + 1)
		p[i], p[j] = p[j], p[i]
	}
	return p
}
func (r *Rand) Shuffle(xs []string) {
	for i := len(xs) - 1; i > 0; i-- {
		j := r.Intn(i + 1)
		xs[i], xs[j] = xs[j], xs[i]
	}
}

// ---------------------------------------------------------------- context

type Finding struct {
	Property  string `json:"property"`
	Signature string `json:"signature"`
	Status    string `json:"status"` // known | fixed
	Commit    string `json:"commit,omitempty"`
	What      string `json:"what"`
}

type violation struct {
	Sig, What string
	Replay    string
}

// Ctx is one run of one check.
type Ctx struct {
	ID, Tier string
	Seed     int64
	Level    string
	Root     string // /verif
	Work     string // scratch dir of this invocation
	Bin      string // taskctl binary
	BinDir   string // directory with vworker variants

	start time.Time
	mu    sync.Mutex

	evals        int
	nontriv      map[string]bool
	distinct     map[string]bool
	counters     map[string]int64
	samples      []interface{}
	extra        map[string]interface{}
	viol         []violation
	violSigs     map[string]int
	knownHits    map[string]int
	inconclusive []string
	Rule         string
	Assumptions  []string
	Exhaustive   bool
	known        []Finding
	MinNontriv   int
}

func Getenv(k, d string) string {
	if v := os.Getenv(k); v != "" {
		return v
	}
	return d
}

func NewCtx(id, tier, level string) *Ctx {
	seed, _ := strconv.ParseInt(Getenv("VERIF_SEED", "1"), 10, 64)
	root := Getenv("VERIF_ROOT", "/verif")
	c := &Ctx{ID: id, Tier: tier, Seed: seed, Level: level, Root: root,
		Work: os.Getenv("VERIF_WORK"), Bin: os.Getenv("VERIF_TASKCTL"), BinDir: os.Getenv("VERIF_BIN"),
		start: time.Now(), nontriv: map[string]bool{}, distinct: map[string]bool{}, counters: map[string]int64{},
		extra: map[string]interface{}{}, violSigs: map[string]int{}, knownHits: map[string]int{}, MinNontriv: 2}
	os.RemoveAll(filepath.Join(root, "replays", id)) // replay files of earlier runs of this check are stale
	b, err := os.ReadFile(filepath.Join(root, "known_findings.json"))
	if err == nil {
		var fs []Finding
		if json.Unmarshal(b, &fs) == nil {
			c.known = fs
		}
	}
	return c
}

func (c *Ctx) Quick() bool { return c.Tier != "thorough" }

// N picks a tier-dependent count.
func (c *Ctx) N(quick, thorough int) int {
	if c.Quick() {
		return quick
	}
	return thorough
}

func (c *Ctx) Rand(salt ...string) *Rand { return NewRand(c.Seed, append([]string{c.ID}, salt...)...) }

func (c *Ctx) Eval(n int)                    { c.mu.Lock(); c.evals += n; c.mu.Unlock() }
func (c *Ctx) Count(k string, n int64)       { c.mu.Lock(); c.counters[k] += n; c.mu.Unlock() }
func (c *Ctx) Counter(k string) int64        { c.mu.Lock(); defer c.mu.Unlock(); return c.counters[k] }
func (c *Ctx) Extra(k string, v interface{}) { c.mu.Lock(); c.extra[k] = v; c.mu.Unlock() }

// Nontrivial registers a case (by a key describing it) as non-trivial.
func (c *Ctx) Nontrivial(key string) { c.mu.Lock(); c.nontriv[Hash(key)] = true; c.mu.Unlock() }

// Distinct registers a distinct observed interleaving / state.
func (c *Ctx) Distinct(kind, key string) {
	c.mu.Lock()
	c.distinct[kind+":"+Hash(key)] = true
	c.mu.Unlock()
}

// Sample keeps up to five literal samples.
func (c *Ctx) Sample(v interface{}) {
	c.mu.Lock()
	if len(c.samples) < 5 {
		c.samples = append(c.samples, v)
	}
	c.mu.Unlock()
}
func (c *Ctx) NSamples() int { c.mu.Lock(); defer c.mu.Unlock(); return len(c.samples) }

func (c *Ctx) Inconclusive(what string) {
	c.mu.Lock()
	c.inconclusive = append(c.inconclusive, what)
	c.mu.Unlock()
}

func Hash(s string) string {
	x := sha1.Sum([]byte(s))
	return hex.EncodeToString(x[:8])
}

// Violate records a refuting observation. sig names the failing input class /
// call site; replay is any JSON-able description of the case that failed.
func (c *Ctx) Violate(sig, what string, replay interface{}) {
	c.mu.Lock()
	defer c.mu.Unlock()
	for _, f := range c.known {
		if f.Property == c.ID && f.Status == "known" && f.Signature == sig {
			c.knownHits[sig]++
			return
		}
	}
	c.violSigs[sig]++
	if c.violSigs[sig] > 3 { // keep at most three replay files per signature
		return
	}
	dir := filepath.Join(c.Root, "replays", c.ID)
	os.MkdirAll(dir, 0o755)
	name := fmt.Sprintf("%s-%s-%d.json", sanitize(sig), Hash(what)[:6], c.violSigs[sig])
	p := filepath.Join(dir, name)
	b, _ := json.MarshalIndent(map[string]interface{}{"property": c.ID, "signature": sig, "what": what,
		"seed": c.Seed, "tier": c.Tier, "case": replay}, "", " ")
	os.WriteFile(p, b, 0o644)
	c.viol = append(c.viol, violation{Sig: sig, What: what, Replay: p})
}

func sanitize(s string) string {
	var b strings.Builder
	for _, r := range s {
		if r >= 'a' && r <= 'z' || r >= 'A' && r <= 'Z' || r >= '0' && r <= '9' || r == '-' || r == '_' {
			b.WriteRune(r)
		} else {
			b.WriteByte('_')
		}
	}
	if b.Len() > 60 {
		return b.String()[:60]
	}
	return b.String()
}

// Finish writes the evidence file, prints the verdict lines and exits.
func (c *Ctx) Finish() {
	c.mu.Lock()
	defer c.mu.Unlock()
	wall := time.Since(c.start).Seconds()
	cov := map[string]interface{}{
		"evaluations":         c.evals,
		"distinct_nontrivial": len(c.nontriv),
		"rule":                c.Rule,
		"samples":             c.samples,
		"events":              c.counters,
		"inconclusive":        len(c.inconclusive),
		"known_finding_hits":  c.knownHits,
		"exhaustive":          c.Exhaustive,
	}
	dk := map[string]int{}
	for k := range c.distinct {
		dk[k[:strings.Index(k, ":")]]++
	}
	cov["distinct_observed"] = dk
	if len(c.inconclusive) > 0 {
		n := len(c.inconclusive)
		if n > 10 {
			n = 10
		}
		cov["inconclusive_samples"] = c.inconclusive[:n]
	}
	for k, v := range c.extra {
		cov[k] = v
	}
	if c.samples == nil {
		cov["samples"] = []interface{}{}
	}
	ev := map[string]interface{}{
		"property_id": c.ID, "tier": c.Tier, "seed": c.Seed, "level": c.Level,
		"coverage": cov, "assumptions": c.Assumptions, "wall_s": float64(int(wall*100)) / 100,
		"violations": len(c.viol),
	}
	if c.Assumptions == nil {
		ev["assumptions"] = []string{}
	}
	os.MkdirAll(filepath.Join(c.Root, "evidence"), 0o755)
	b, _ := json.MarshalIndent(ev, "", " ")
	os.WriteFile(filepath.Join(c.Root, "evidence", c.ID+".json"), append(b, '\n'), 0o644)

	sigs := make([]string, 0, len(c.knownHits))
	for s := range c.knownHits {
		sigs = append(sigs, s)
	}
	sort.Strings(sigs)
	for _, s := range sigs {
		what := s
		for _, f := range c.known {
			if f.Property == c.ID && f.Signature == s {
				what = s + " — " + f.What
			}
		}
		fmt.Printf("KNOWN-FINDING: property=%s %s (seen %d times)\n", c.ID, what, c.knownHits[s])
	}
	fmt.Printf("%s %s seed=%d: evaluations=%d distinct_nontrivial=%d inconclusive=%d wall=%.1fs events=%v\n",
		c.ID, c.Tier, c.Seed, c.evals, len(c.nontriv), len(c.inconclusive), wall, c.counters)
	if len(c.viol) > 0 {
		for _, v := range c.viol {
			fmt.Printf("  violated [%s]: %s\n", v.Sig, firstLine(v.What))
		}
		for _, v := range c.viol {
			fmt.Printf("VIOLATION property=%s replay=%s\n", c.ID, v.Replay)
		}
		os.Exit(1)
	}
	if c.evals == 0 || len(c.nontriv) < c.MinNontriv {
		fmt.Printf("BROKEN-CHECK property=%s: monitors observed too little (evaluations=%d, non-trivial=%d)\n", c.ID, c.evals, len(c.nontriv))
		os.Exit(2)
	}
	fmt.Printf("HELD property=%s on what was observed\n", c.ID)
	os.Exit(0)
}

func firstLine(s string) string {
	if i := strings.IndexByte(s, '\n'); i >= 0 {
		s = s[:i]
	}
	if len(s) > 300 {
		s = s[:300] + "…"
	}
	return s
}

// ---------------------------------------------------------------- parallel

// Par runs f(0..n-1) on w workers.
func Par(n, w int, f func(i int)) {
	if w < 1 {
		w = 1
	}
	var wg sync.WaitGroup
	ch := make(chan int)
	for k := 0; k < w; k++ {
		wg.Add(1)
		go func() {
			defer wg.Done()
			for i := range ch {
				f(i)
			}
		}()
	}
	for i := 0; i < n; i++ {
		ch <- i
	}
	close(ch)
	wg.Wait()
}

// ---------------------------------------------------------------- processes

type ProcResult struct {
	Stdout, Stderr []byte
	Exit           int    // exit status; -1 when killed by a signal
	Signal         string // name of the signal that ended it, if any
	TimedOut       bool   // the watchdog fired
	Dump           string // goroutine dump obtained with SIGQUIT when the watchdog fired
	Dur            time.Duration
	Pgid           int // process group of the child
}

type Proc struct {
	Argv    []string
	Dir     string
	Env     []string // complete environment
	Stdin   []byte
	Timeout time.Duration
	// KeepGroup: after a normal exit the rest of the process group is left alone (the caller examines what the
	// child left behind and kills ProcResult.Pgid itself)
	KeepGroup bool
}

// Run runs a child in its own process group under a watchdog. When the
// watchdog fires the child gets SIGQUIT (Go programs dump their goroutines),
// then the whole group is killed.
func (p Proc) Run() ProcResult {
	cmd := exec.Command(p.Argv[0], p.Argv[1:]...)
	cmd.Dir = p.Dir
	cmd.Env = p.Env
	cmd.SysProcAttr = &syscall.SysProcAttr{Setpgid: true}
	var so, se lockedBuf
	cmd.Stdout, cmd.Stderr = &so, &se
	if p.Stdin != nil {
		cmd.Stdin = bytes.NewReader(p.Stdin)
	}
	t0 := time.Now()
	res := ProcResult{}
	if err := cmd.Start(); err != nil {
		res.Exit = 127
		res.Stderr = []byte(err.Error())
		return res
	}
	done := make(chan error, 1)
	go func() { done <- cmd.Wait() }()
	to := p.Timeout
	if to == 0 {
		to = 60 * time.Second
	}
	var err error
	select {
	case err = <-done:
	case <-time.After(to):
		res.TimedOut = true
		cmd.Process.Signal(syscall.SIGQUIT)
		select {
		case err = <-done:
		case <-time.After(3 * time.Second):
		}
		syscall.Kill(-cmd.Process.Pid, syscall.SIGKILL)
		if err == nil {
			select {
			case err = <-done:
			case <-time.After(5 * time.Second):
			}
		}
		res.Dump = se.String()
	}
	// make sure nothing of the group survives
	res.Pgid = cmd.Process.Pid
	if !p.KeepGroup || res.TimedOut {
		syscall.Kill(-cmd.Process.Pid, syscall.SIGKILL)
	}
	res.Dur = time.Since(t0)
	res.Stdout, res.Stderr = so.Bytes(), se.Bytes()
	if err != nil {
		if ee, ok := err.(*exec.ExitError); ok {
			ws := ee.Sys().(syscall.WaitStatus)
			if ws.Signaled() {
				res.Exit = -1
				res.Signal = ws.Signal().String()
			} else {
				res.Exit = ws.ExitStatus()
			}
		} else {
			res.Exit = -2
		}
	}
	return res
}

type lockedBuf struct {
	mu sync.Mutex
	b  bytes.Buffer
}

func (l *lockedBuf) Write(p []byte) (int, error) {
	l.mu.Lock()
	defer l.mu.Unlock()
	if l.b.Len() < 8<<20 {
		l.b.Write(p)
	}
	return len(p), nil
}
func (l *lockedBuf) Bytes() []byte {
	l.mu.Lock()
	defer l.mu.Unlock()
	return append([]byte(nil), l.b.Bytes()...)
}
func (l *lockedBuf) String() string { return string(l.Bytes()) }

// Crashed reports whether a Go child died abnormally: panic, fatal error,
// signal, or exit status other than 0/1.
func (r ProcResult) Crashed() (bool, string) {
	s := string(r.Stderr)
	switch {
	case r.TimedOut:
		return false, ""
	case strings.Contains(s, "panic: ") || strings.Contains(s, "\npanic("):
		return true, "panic"
	case strings.Contains(s, "fatal error: "):
		return true, "fatal error"
	case r.Signal != "":
		return true, "signal " + r.Signal
	case r.Exit != 0 && r.Exit != 1:
		return true, fmt.Sprintf("exit status %d", r.Exit)
	}
	return false, ""
}

// CrashedNotByStatus is Crashed without the exit-status clause: for checks whose statement leaves the numeric
// value of a non-zero exit status open.
func (r ProcResult) CrashedNotByStatus() (bool, string) {
	s := string(r.Stderr)
	switch {
	case r.TimedOut:
		return false, ""
	case strings.Contains(s, "panic: ") || strings.Contains(s, "\npanic("):
		return true, "panic"
	case strings.Contains(s, "fatal error: "):
		return true, "fatal error"
	case r.Signal != "":
		return true, "signal " + r.Signal
	}
	return false, ""
}

// TopFrame extracts the first taskctl frame of a Go panic trace (used as the
// known-finding signature of a crash).
func TopFrame(stderr string) string {
	i := strings.Index(stderr, "goroutine ")
	if i < 0 {
		return "?"
	}
	for _, ln := range strings.Split(stderr[i:], "\n") {
		ln = strings.TrimSpace(ln)
		if strings.HasPrefix(ln, "github.com/taskctl/taskctl/") || strings.HasPrefix(ln, "main.") {
			if j := strings.LastIndex(ln, "("); j > 0 {
				ln = ln[:j]
			}
			ln = strings.TrimPrefix(ln, "github.com/taskctl/taskctl/")
			return ln
		}
	}
	return "?"
}

// DeadlockDump classifies a goroutine dump: true when no goroutine is
// runnable/running/in a syscall that has a taskctl frame, i.e. everything of
// taskctl is parked and waiting longer cannot help.
func DeadlockDump(dump string) bool {
	if !strings.Contains(dump, "goroutine ") {
		return false
	}
	blocks := strings.Split(dump, "\n\n")
	seen := false
	for _, b := range blocks {
		if !strings.HasPrefix(strings.TrimSpace(b), "goroutine ") {
			continue
		}
		if !strings.Contains(b, "taskctl/") && !strings.Contains(b, "main.") {
			continue
		}
		seen = true
		hdr := b
		if i := strings.IndexByte(b, '\n'); i > 0 {
			hdr = b[:i]
		}
		parked := false
		for _, st := range []string{"chan receive", "chan send", "select", "sync.Mutex", "sync.RWMutex", "semacquire", "sync.Cond", "sync.WaitGroup", "sleep"} {
			if strings.Contains(hdr, st) {
				parked = true
			}
		}
		if strings.Contains(hdr, "sleep") { // a sleeping poller is not dead
			// a polling loop that sleeps is alive but may be spinning without progress;
			// treat as not-deadlocked here, the caller decides on progress separately
			return false
		}
		if !parked {
			return false
		}
	}
	return seen
}

// MustJSON marshals for samples/replays.
func MustJSON(v interface{}) string {
	b, _ := json.Marshal(v)
	return string(b)
}

// BaseEnv is the controlled parent environment for taskctl children.
func BaseEnv(home string, extra ...string) []string {
	env := []string{"PATH=/usr/local/sbin:/usr/local/bin:/usr/sbin:/usr/bin:/sbin:/bin", "HOME=" + home, "LANG=C", "TERM=dumb"}
	return append(env, extra...)
}

func WriteFile(path, content string) {
	os.MkdirAll(filepath.Dir(path), 0o755)
	if err := os.WriteFile(path, []byte(content), 0o644); err != nil {
		panic(err)
	}
}

// WriteExec writes a file that is going to be executed. The write happens under syscall.ForkLock (read side), the
// lock os/exec takes before it forks: no child of this process can be forked while the descriptor is open for
// writing, so none inherits it for the moment between fork and exec - which is what makes an exec of the fresh
// file by somebody else fail with ETXTBSY ("text file busy") when many cases fork in parallel.
func WriteExec(path string, content []byte, mode os.FileMode) error {
	syscall.ForkLock.RLock()
	defer syscall.ForkLock.RUnlock()
	return os.WriteFile(path, content, mode)
}

func ReadFile(path string) string {
	b, _ := os.ReadFile(path)
	return string(b)
}
