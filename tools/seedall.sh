#!/bin/bash
# run every seeded patch found under /tmp/seed/*/_seed/*/patch.diff against its own property's quick check
mkdir -p /tmp/seedres
for p in /tmp/seed/C*/_seed/*/patch.diff; do
  id=$(echo $p | sed 's|/tmp/seed/\(C[0-9]*\)/.*|\1|'); v=$(basename $(dirname $p))
  out=/tmp/seedres/$id-$v.txt
  [ -s $out ] && continue
  echo "== $id $v" > $out
  /verif/tools/seedtest.sh $p $id >> $out 2>&1
done
