#!/usr/bin/env python3
# tools/mkmeta3.py <before-dir> <after-dir> <verify-dir> : writes seeded/Cxx-R'+RND+'?/meta.json for the round-3 seeds
import json, os, re, sys, glob
RND, before, after, ver = sys.argv[1:5]
def verdict(path):
    if not os.path.exists(path): return None
    t = open(path).read()
    sigs = sorted(set(re.findall(r'violated \[([^\]]+)\]', t)))
    if 'VIOLATION' in t: return {"verdict": "violation reported", "signatures": sigs}
    if 'BROKEN' in t: return {"verdict": "check ended as BROKEN-CHECK (too little observed)"}
    if 'HELD' in t: return {"verdict": "not detected (check held)"}
    return {"verdict": "no result", "raw": t[:300]}
for d in sorted(glob.glob('/verif/seeded/*-R'+RND+'?')):
    sid = os.path.basename(d)
    am = {}
    try: am = json.load(open(d + '/agent_meta.json'))
    except Exception: pass
    v = open(f'{ver}/{sid}.verify.txt').read() if os.path.exists(f'{ver}/{sid}.verify.txt') else ''
    meta = {
        "seed": sid, "round": int(RND), "property": sid.split('-')[0],
        "summary": am.get("summary", ""), "needs_to_manifest": am.get("needs_to_manifest", ""),
        "files_changed": am.get("files_changed", []),
        "confirmed_by_me": {
            "patch_applies_builds_with_and_without_tag": all(x in v for x in ("APPLY-OK", "BUILD-OK", "BUILDTAG-OK")),
            "pinned_suite_passes_with_patch": "suite-exit=0" in v,
            "demonstration_passes_clean_fails_patched": next((l for l in v.splitlines() if l.startswith("DEMO-OK")), "NOT CONFIRMED"),
        },
        "check_result_quick_tier": {"before_strengthening_of_this_round": verdict(f'{before}/{sid}.txt'), "current": verdict(f'{after}/{sid}.txt')},
        "agent_verified": am.get("verified", am.get("agent_verified", "")),
    }
    extra = f'{d}/note.txt'
    if os.path.exists(extra): meta["note"] = open(extra).read().strip()
    json.dump(meta, open(d + '/meta.json', 'w'), indent=1)
    print(sid, meta["check_result_quick_tier"]["before_strengthening_of_this_round"] and meta["check_result_quick_tier"]["before_strengthening_of_this_round"]["verdict"], '->', meta["check_result_quick_tier"]["current"] and meta["check_result_quick_tier"]["current"]["verdict"])
