#!/usr/bin/env python3
"""Regenerates /verif/MANIFEST.json from the table below (kept next to the code so the
manifest never drifts from what ./check implements)."""
import json, os, subprocess
ROOT = os.path.dirname(os.path.dirname(os.path.abspath(__file__)))

HOOK_COMMITS = subprocess.run(["git", "-C", "/repo", "log", "--format=%h %s", "--grep=^verif hooks"],
                              capture_output=True, text=True).stdout.strip().splitlines()

# id -> (level, technique, text, note, design_ref)
CHECKS = {
 "C01": ("exploration", "controlled-schedule exploration (gate Runner, DFS over completion orders) + online ordering monitor + race detector",
         "every DAG on <=3/<=4 stages x all outcome assignments x every completion order is executed on the real scheduler; a monitor at Runner.Run entry refutes a start before a dependency returned; seeded larger/nested graphs and a free-running -race pass add reach. Exhaustive only inside the stated bounds.",
         "trusts the harness's gate Runner and the Go race detector; the polling pause is shortened through the verif hook, the loop itself is unchanged", "DESIGN.md §4 C01"),
 "C02": ("exploration", "reference-model comparison over explored completion orders + cross-order determinism check + race detector",
         "final stage statuses, ran-set and error flag of every explored execution are compared with an executable model of the statement, and all completion orders of one configuration must agree with each other; through the binary, every way a stage can fail (command, before-hook, timeout) x allow_failure on task / stage.",
         "reference model (cmd/vworker/sched.go) is trusted; don't-care region (cond-false stage behind a failure) is excluded from the strict comparison", "DESIGN.md §4 C02"),
 "C03": ("exploration", "exactly-once / termination monitor over explored schedules incl. cancellation injected at every explorer state",
         "per-stage Run counts, leftover Waiting/Running statuses and bounded-progress watchdogs (re-confirmed 3x) over the C01 executions plus runs cancelled by the caller or by a stage-condition error at every explorer state.",
         "unbounded 'eventually returns' is restated as 'returns within 10 s once nothing is in flight' (expected < 1 ms)", "DESIGN.md §4 C03"),
 "C04": ("exploration", "eligible-set monitor at logical quiescent points + shell-barrier pipelines on the real runner",
         "at every quiescent point of every explored execution the tasks parked in the controlled Runner must contain the model's eligible set; barrier pipelines (2..6, 40 and 64 wide, context up-commands, a stage eligible while another task's hook is open) complete only if all eligible stages overlap.",
         "quiescence is logical (two scheduler passes since the last change, via the sched.pass hook; a loop that is silent for 250 ms counts as settled, which never yields a verdict)", "DESIGN.md §4 C04"),
 "C05": ("exploration", "exhaustive + seeded graph builds compared with Kahn's algorithm and declared edge sets; CLI `graph` output parsed",
         "every digraph on <=3 (quick) / <=4 (thorough) stages incl. self-loops in every declaration order is built through the public API and compared with an independent cycle test; accepted graphs must expose exactly the declared edges; a YAML sample goes through the binary.",
         "Kahn's algorithm in the checker is the oracle; dangling names are C18", "DESIGN.md §4 C05"),
 "C06": ("exploration", "reference-interpreter comparison of ordered command traces (trace file + stdout) over the exhaustive task grammar",
         "all 3024 shapes of the quantifier's grammar plus seeded larger tasks run on the real TaskRunner; the ordered token trace, Skipped/Errored are compared with a 30-line interpreter of the statement.",
         "tokens are written by shell builtins into an O_APPEND file; `after` after a failing `before` is a don't-care", "DESIGN.md §4 C06"),
 "C07": ("exploration", "status table oracle over exit-status sweep (library + scheduler) and CLI target sequences observed at the process boundary",
         "exit statuses at every command position produced four ways, with/without allow_failure, as direct runs and pipeline stages; CLI sequences of up to 3 targets in three invocation forms; process exit status and trace tokens compared with the statement.",
         "numeric value of a non-zero process status and Task fields after a failing before-hook are don't-cares", "DESIGN.md §4 C07"),
 "C08": ("exploration", "recording-Runner snapshots under the real scheduler compared with task⊕stage overlay; race detector; CLI echo of every key",
         "pipelines in which 2..6 stages share one task object with distinct overrides (parallel/chained/mixed, repeated, followed by a second pipeline and a direct run) — every execution's env/variables/dir must equal the task's settings overlaid with that stage's overrides and contain no foreign key; same through the binary.",
         "a stage execution is identified by a marker key of its own override", "DESIGN.md §4 C08"),
 "C13": ("exploration", "trace-token monitor (SURVIVED token after an overrunning command must never appear) on the real TaskRunner + process liveness + re-confirmed time bound",
         "overrunning shapes at every command position and in hooks, with/without allow_failure, timeouts 100ms..1s; fitting commands and 'each command gets the full timeout' cases; through the binary: duration spellings, and overrunning commands run directly and as a pipeline stage (exit status, trace, the command's process gone after taskctl exited).",
         "overrun margin >=20x timeout makes the main oracle a safety observation; the wall-clock bound is secondary and re-confirmed", "DESIGN.md §4 C13"),
 "C09": ("exploration", "precedence-table oracle over values printed by commands run through the binary with a controlled parent environment",
         "every non-empty subset of the six env levels (and of the five for direct runs) defines its own name under ascending, descending and shuffled value assignments; every subset of the three dir levels x two start directories with pwd in hooks and commands; several tasks (some defining nothing) run directly and as parallel/chained stages in one process, every execution compared with the levels that apply to it.",
         "names defined only by taskctl itself are not examined", "DESIGN.md §4 C09"),
 "C10": ("exploration", "precedence-table oracle for template variables, verbatim comparison of argument vectors, undefined-variable trace monitor (process boundary); in-process own-text/own-values monitor for parallel stages with templated commands + race detector",
         "all subsets of the four variable levels; argument vectors containing target names, a=b, -v, --x and `--`; undefined variable at every command position, in before and dir; 4..10 parallel stages whose commands are distinct templates over their own variables (real scheduler and runner, plain and -race).",
         "argv with `--` before any target is outside the statement", "DESIGN.md §4 C10"),
 "C11": ("exploration", "byte-exact comparison of captured output and of what dependants read; porcupine linearizability check of recorded producer/consumer run histories; race detector",
         "producers with generated contents up to 64 KiB, printable-ASCII task names, exportAs, variations; consumers in several DAG positions; histories recorded at the Run boundary are checked against a per-key register model.",
         "independent re-implementation of the naming rule; porcupine v1.3.0; checker timeout = inconclusive", "DESIGN.md §4 C11"),
 "C12": ("fault_enumeration", "cancel injected at enumerated points (verif hooks park the runs) in child processes; crash / dead-lock-dump / trace-marker monitors; free-running -race variant",
         "injection point x tasks in flight (0..4) x stages waiting (0..3) x trigger x {once, twice, concurrent}; the parent observes crashes and classifies goroutine dumps; offline trace check for starts after CANCEL_RET and for interrupted tasks reporting success.",
         "bounded progress (12 s) stands in for 'returns'; dead-lock is decided from the goroutine dump, slowness is re-confirmed", "DESIGN.md §4 C12"),
 "C14": ("exploration", "ordered-trace grammar checker (bracket grammar / counting with Hall condition) over in-process and CLI workloads; race detector",
         "1..8 tasks over 1..3 contexts started sequentially, from a goroutine barrier, as parallel stages and through the binary (one or two targets, succeeding and failing); hooks append tokens to one O_APPEND file.",
         "skipped tasks may have 0 or 1 before/after; `down` after a failed `up` is a don't-care", "DESIGN.md §4 C14"),
 "C15": ("fault_enumeration", "malformed-shape enumeration (first-order tree mutants x 3 formats, truncations, hand-written shapes, env_file lines) observed at the process boundary: exit status / panic text / watchdog",
         "every node of a base configuration covering all documented keys is replaced by 17 wrong-typed values, deleted or given unknown keys, in YAML, JSON and TOML; seeded higher-order mutants; truncation at every k-th byte; each file goes through list, validate and (when it loads) show, graph.",
         "process boundary only; crash signature = top taskctl frame of the panic", "DESIGN.md §4 C15"),
 "C16": ("exploration", "differential observation of the binary over three serialisations of one abstract configuration (emitters validated against the reference decoders per case)",
         "abstract configurations from a grammar over every documented key are emitted as YAML, JSON and TOML; list, show, graph (edge set) and the trace + exit status of running every task and pipeline must agree pairwise.",
         "emitters written in the harness; each generated case is first round-tripped through yaml.v2 / encoding/json / go-toml", "DESIGN.md §4 C16"),
 "C17": ("exploration", "closure oracle (BFS in the checker) vs `taskctl list` over exhaustive small import graphs, broken-file injection, global/project splits",
         "all import graphs on <=3 files x every root in nested directories, seeded graphs on 4..6 files with directory and repeated imports, each closure file made missing/broken/wrong-typed, all 16 splits of four definitions between global and project file.",
         "bounded time (15 s) stands in for termination", "DESIGN.md §4 C17"),
 "C18": ("exploration", "single-broken-reference mutants and repaired twins through list/validate; every pipeline of accepted configurations run under a watchdog",
         "one broken reference of each kind at every position must be rejected, the twin accepted; pipelines of accepted configurations must end with exit 0/1 in bounded time.",
         "`validate` accepts iff it prints `file is valid`", "DESIGN.md §4 C18"),
 "C19": ("exploration", "recording-sink monitor over generated streams x splittings x concurrent tasks (disjoint payload alphabets); differential results across formats in child processes and through the binary; race detector",
         "every Write reaching a synchronised sink is checked for whole prefixed lines, attribution and content (after the statement's normalisation) against the bytes written; raw is compared byte for byte; outcomes x formats must give the same recorded result and never crash.",
         "the ANSI language is the decorator's own regular expression, applied after re-joining on both sides", "DESIGN.md §4 C19"),
 "C20": ("exploration", "strace syscall monitor for the registered path set vs the checker's own glob matcher; event histories judged against an independent fsnotify reference observer; race detector over watcher construction in a -race build of taskctl",
         "generated trees and pattern sets: inotify_add_watch paths must equal the selected set; for every subset of event types, paced histories of file operations must run the task exactly for subscribed events with the right EventName/EventPath.",
         "multiplicity-tolerant oracle; multi-bit events, directory children and paths after remove/rename are don't-cares", "DESIGN.md §4 C20"),
}
PENDING = {}

def main():
    props = [json.loads(l) for l in open(os.path.join(ROOT, "properties.jsonl"))]
    checks, na = [], []
    for p in props:
        i = p["id"]
        if i in CHECKS:
            lvl, tech, text, note, ref = CHECKS[i]
            checks.append({
                "property_id": i,
                "quick_cmd": "./check %s quick" % i,
                "thorough_cmd": "./check %s thorough" % i,
                "evidence_file": "/verif/evidence/%s.json" % i,
                "replay_cmd_template": "./check replay {path}",
                "engine": "vcheck",
                "level_claimed": {"category": lvl, "text": text, "design_ref": ref},
                "level_note": note,
                "technique": tech,
            })
        else:
            na.append({"property_id": i, "reason": PENDING.get(i, "check not built yet — runtime monitor for this property is under construction (see DESIGN.md §4); not out of reach for the technique")})
    m = {
        "version": 1,
        "setup_cmd": "./check setup",
        "hooks": {
            "guard": "verif",
            "enable": "go build -tags verif (the harness module replaces github.com/taskctl/taskctl with /repo)",
            "baseline_off_cmd": "cd /repo && GOFLAGS=-mod=mod GOPROXY=off GOSUMDB=off GOTOOLCHAIN=local go test -json -vet=off -count=1 -timeout 25m ./...",
            "source_commits": [c.split()[0] for c in HOOK_COMMITS],
            "add_only": True,
        },
        "engines": [{"name": "vcheck", "path": "/verif/cmd/vcheck", "serves_properties": sorted(CHECKS),
                     "kind_free_text": "runtime monitoring: generated workloads against the real taskctl binary / packages (vworker children, -race builds), online monitors, reference models, offline trace checkers"}],
        "checks": checks,
        "not_applicable": na,
        "notes": "Technique family: runtime monitoring and sanitizers. Known findings: /verif/known_findings.json. See DESIGN.md.",
    }
    json.dump(m, open(os.path.join(ROOT, "MANIFEST.json"), "w"), indent=1)
    print("checks:", len(checks), "not_applicable:", len(na))

main()
