#!/bin/bash
# tools/seedtest.sh <patch.diff> <check ids...>
# 1. scratch worktree: patch applies, builds (with and without -tags verif), pinned suite passes
# 2. apply to /repo, run the quick checks, undo
export GOFLAGS=-mod=mod GOPROXY=off GOSUMDB=off GOTOOLCHAIN=local
patch=$(readlink -f "$1"); shift
wt=/tmp/sv.$$
git -C /repo worktree add -q --detach $wt HEAD || exit 2
( cd $wt && git apply "$patch" && go build ./... && go build -tags verif ./... && for try in 1 2 3; do timeout 240 go test -vet=off -count=1 -timeout 3m ./... > /tmp/suite.$$ 2>&1; rc=$?; [ $rc -ne 124 ] && ! grep -q "test timed out" /tmp/suite.$$ && break; echo "suite attempt $try hung (pkg/output spinner flake under load), retrying"; done; grep -v "^ok" /tmp/suite.$$ | head -20; rm -f /tmp/suite.$$; echo "suite-exit=$rc" )
git -C /repo worktree remove --force $wt
if [ -n "$(git -C /repo status --porcelain)" ]; then echo "/repo not clean"; exit 2; fi
git -C /repo apply "$patch" || exit 2
for id in "$@"; do
  ( cd /verif && timeout 1500 ./check $id quick 2>&1 | grep -E "^(VIOLATION|HELD|KNOWN|BROKEN|BUILD|  violated)" | cut -c1-260 | sort | uniq -c | sort -rn | head -8 )
done
git -C /repo checkout -- .
