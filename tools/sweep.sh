#!/bin/bash
# tools/sweep.sh [tier] [seed] : run every check, print one line per property
tier=${1:-quick}; seed=${2:-1}
cd /verif
for i in $(seq -w 1 20); do
  id=C$i; t0=$(date +%s)
  out=$(VERIF_SEED=$seed timeout 3600 ./check $id $tier 2>&1); rc=$?
  t1=$(date +%s)
  echo "$id rc=$rc $((t1-t0))s $(echo "$out" | grep -E '^(HELD|VIOLATION|KNOWN-FINDING|BROKEN|BUILD)' | head -3 | tr '\n' ' ' | cut -c1-200)"
done
