#!/bin/bash
# tools/seeddemo.sh <seed dir (…/_seed/A)> : run the agent's demonstration on a clean scratch worktree (must pass)
# and with the patch applied (must fail). Prints DEMO-OK / DEMO-BAD.
export GOFLAGS=-mod=mod GOPROXY=off GOSUMDB=off GOTOOLCHAIN=local
sd=$(readlink -f "$1")
wt=/tmp/sd.$$
git -C /repo worktree add -q --detach $wt HEAD || exit 2
trap 'git -C /repo worktree remove --force $wt >/dev/null 2>&1' EXIT
pkgdir() { case "$1" in scheduler) echo pkg/scheduler;; runner) echo pkg/runner;; config) echo internal/config;; output) echo pkg/output;; watch) echo internal/watch;; main) echo cmd/taskctl;; executor) echo pkg/executor;; utils) echo pkg/utils;; task) echo pkg/task;; variables) echo pkg/variables;; *) echo "";; esac; }
run_demo() { # prints one line per demo element: name rc
  local rcs=""
  for t in "$sd"/demo/*_test.go; do
    [ -e "$t" ] || continue
    pkg=$(grep -m1 '^package ' "$t" | awk '{print $2}' | sed 's/_test$//'); d=$(pkgdir $pkg)
    [ -z "$d" ] && { echo "unknown package $pkg"; continue; }
    cp "$t" $wt/$d/
    names=$(grep -o '^func Test[A-Za-z0-9_]*' "$t" | sed 's/func //' | tr '\n' '|' | sed 's/|$//')
    ( cd $wt && timeout 600 go test -vet=off -count=1 -timeout 9m -run "^($names)\$" ./$d > /tmp/sd.$$.out 2>&1 ); rc=$?
    rm -f $wt/$d/$(basename "$t")
    rcs="$rcs $(basename $t)=$rc"
  done
  if [ -z "$rcs" ]; then
    for sh in "$sd"/demo/*.sh; do
      [ -e "$sh" ] || continue
      ( cd $wt && mkdir -p _seed/$(basename $sd) && cp -r "$sd/demo" _seed/$(basename $sd)/ && timeout 600 sh _seed/$(basename $sd)/demo/$(basename $sh) $wt > /tmp/sd.$$.out 2>&1 ); rc=$?
      rm -rf $wt/_seed
      rcs="$rcs $(basename $sh)=$rc"
    done
  fi
  echo "$rcs"
}
clean=$(run_demo)
( cd $wt && git apply "$sd/patch.diff" ) || { echo "DEMO-BAD patch does not apply"; exit 1; }
patched=$(run_demo)
( cd $wt && git checkout -q -- . )
rm -f /tmp/sd.$$.out
ok=1
for x in $clean; do [ "${x##*=}" = 0 ] || ok=0; done
anyfail=0
for x in $patched; do [ "${x##*=}" = 0 ] || anyfail=1; done
[ $anyfail = 1 ] || ok=0
if [ $ok = 1 ]; then echo "DEMO-OK clean:[$clean] patched:[$patched]"; else echo "DEMO-BAD clean:[$clean] patched:[$patched]"; fi
