#!/bin/bash
# tools/mut.sh <sed-expr> <file-in-repo> <check ids...> : apply a one-line mutation to /repo, run quick checks, revert.
expr=$1; file=$2; shift 2
cd /repo && sed -i "$expr" "$file" && git diff --stat | tail -1
for id in "$@"; do (cd /verif && timeout 900 ./check $id quick 2>&1 | grep -E "^(VIOLATION|HELD|KNOWN|BROKEN|BUILD)" | sort | uniq -c | head -5); done
git -C /repo checkout -- .
